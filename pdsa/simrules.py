"""Rules over simulator.py shared by C02-C06 and C11 (DESIGN §3).  Part A: execution and horizon (R2.x, R3.x)."""
from __future__ import annotations

import ast
import copy
import itertools

from .cfg import CFG
from .core import AnalysisError, NOCONST, body_of, const_value, is_self_attr, is_super_call, mangle, short, unparse, walk_shallow
from .effects import Subst, bind_args, self_call_kind
from .guards import GuardEval, canon, ctext, load_enums

SIM = 'DEVSSimulator'
BASE = 'Simulator'
ENUMS = ('RunState', 'ReplicationState', 'ErrorStrategy')


class SimCtx:
    """anchors of the simulator classes, resolved once per run"""

    def __init__(self, prog):
        self.prog = prog
        prog.cls(SIM)
        prog.cls(BASE)
        self.enums = load_enums(prog, ENUMS)
        r = prog.simple_return(SIM, 'simulator_time')
        if r is None or not is_self_attr(r):
            raise AnalysisError('anchor vanished: Simulator.simulator_time is not a property returning a field')
        self.clock = r.attr
        r = prog.simple_return(SIM, 'eventlist')
        if r is None or not is_self_attr(r):
            raise AnalysisError('anchor vanished: DEVSSimulator.eventlist() does not return a field')
        self.evl = r.attr
        self.clock_t = f'self.{self.clock}'
        self.evl_t = f'self.{self.evl}'
        for f in ('_run_state', '_replication_state', '_replication'):
            if not self.field_written(f):
                raise AnalysisError(f'anchor vanished: field {f} is never assigned in Simulator')
        self.end_t = 'self._replication.end_sim_time'

    @property
    def bound_t(self):
        # the run bound is an anchor only of the rules that read it (horizon, admission): the others do not depend on how it is kept
        for f in ('_run_until_time', '_run_until_including'):
            if not self.field_written(f):
                raise AnalysisError(f'anchor vanished: field {f} is never assigned in Simulator')
        return 'self._run_until_time'

    def field_written(self, f):
        for c in (BASE, SIM):
            for fn in self.prog.cls(c).methods.values():
                for n in walk_shallow(fn):
                    if is_self_attr(n, f) and isinstance(n.ctx, ast.Store):
                        return True
        return False

    def c(self, node, cls=SIM):
        return ctext(self.prog, cls, node)

    def sim_functions(self):
        """(ClassInfo, FunctionDef) for every method of every class in the Simulator hierarchy + worker thread"""
        out = []
        for cname in self.prog.classes:
            if self.prog.is_subclass(cname, BASE) or cname == 'SimulatorWorkerThread':
                ci = self.prog.classes[cname]
                for fn in ci.methods.values():
                    out.append((ci, fn))
        return out

    def is_evl(self, node, cls=SIM):
        return node is not None and self.c(node, cls) == self.evl_t


def local_aliases(fn):
    """single-assignment locals: name -> value expression"""
    count = {}
    val = {}
    for n in walk_shallow(fn):
        tgts = []
        if isinstance(n, ast.Assign):
            tgts = n.targets
        elif isinstance(n, (ast.AnnAssign, ast.AugAssign)):
            tgts = [n.target]
        elif isinstance(n, (ast.For, ast.comprehension)):
            tgts = [n.target]
        elif isinstance(n, ast.NamedExpr):
            tgts = [n.target]
        for t in tgts:
            for x in ast.walk(t):
                if isinstance(x, ast.Name):
                    count[x.id] = count.get(x.id, 0) + 1
                    if isinstance(n, (ast.Assign, ast.AnnAssign)) and x is t and getattr(n, 'value', None) is not None:
                        val[x.id] = n.value
    params = {a.arg for a in fn.args.args + fn.args.kwonlyargs}
    return {k: v for k, v in val.items() if count.get(k) == 1 and k not in params}


def raise_guards_before(g: CFG, node):
    """conditions c such that node is reached only through `not c` while the c-branch leads to a raise:
    [(cond ast, branch_taken_to_reach_node)] restricted to guards whose other branch can reach a Raise directly"""
    out = []
    for (c, br) in g.guard_branches(node):
        other = [s for (s, lab) in c.succ if lab == ('F' if br else 'T')]
        raises = False
        for s in other:
            todo, seen = [s], set()
            while todo:
                x = todo.pop()
                if x.id in seen:
                    continue
                seen.add(x.id)
                if isinstance(x.ast, ast.Raise):
                    raises = True
                    break
                if x.kind == 'stmt' and not isinstance(x.ast, (ast.Return,)):
                    todo.extend(t for (t, l) in x.succ if l not in ('exc',))
            if raises:
                break
        if raises:
            out.append((c.ast, br))
    return out


# =========================================================================== R2.1
def r21_typestate(ctx, sc: SimCtx):
    prog = ctx.prog
    ctx.rule('R2.1', 'every popped event: clock := its time, then executed exactly once, on every path (typestate popped->clock_set->executed)')
    sites = 0
    for ci, fn in sc.sim_functions():
        g = None
        for st in walk_shallow(fn):
            if not (isinstance(st, (ast.Assign, ast.AnnAssign)) and st.value is not None and isinstance(st.value, ast.Call)
                    and isinstance(st.value.func, ast.Attribute) and st.value.func.attr == 'pop_first'
                    and sc.is_evl(st.value.func.value, ci.name)):
                continue
            if any(isinstance(y, (ast.Yield, ast.YieldFrom)) for y in walk_shallow(fn)):
                raise AnalysisError(f'R2.1: {ci.name}.{fn.name} pops events inside a generator; the typestate rule does not model generators')
            tgt = st.targets[0] if isinstance(st, ast.Assign) else st.target
            if not isinstance(tgt, ast.Name):
                continue
            var = tgt.id
            sites += 1
            g = g or CFG(fn)
            pn = g.node_for(st)
            problems = _typestate(ctx, sc, ci, fn, g, pn, var)
            ok = not problems
            ctx.ob('R2.1', f'{ci.name}.{fn.name}:{var}', ok, sample=f'{ci.name}.{fn.name}: {var} = pop_first() -> clock := {var}.time -> {var}.execute() on all paths: {ok}')
            for (key, node, msg) in problems:
                ctx.finding('R2.1', f'{ci.name}.{fn.name}:{key}', ci, node, msg, where=f'{ci.name}.{fn.name}')
    # unassigned pops (result dropped) anywhere in the simulator classes
    for ci, fn in sc.sim_functions():
        for st in walk_shallow(fn):
            if isinstance(st, ast.Expr) and isinstance(st.value, ast.Call) and isinstance(st.value.func, ast.Attribute) \
                    and st.value.func.attr == 'pop_first' and sc.is_evl(st.value.func.value, ci.name):
                sites += 1
                ctx.ob('R2.1', f'{ci.name}.{fn.name}:dropped-pop', False)
                ctx.finding('R2.1', f'{ci.name}.{fn.name}:dropped-pop', ci, st, 'an event is popped from the event list and dropped without being executed',
                            where=f'{ci.name}.{fn.name}')
    ctx.floor('R2.1', 'pop_first() call sites', sites, 2)


def _typestate(ctx, sc, ci, fn, g, pn, var):
    problems = []
    seen_exec = False
    states = {}
    work = []
    for (s, lab) in pn.succ:
        states.setdefault(s.id, set()).add('popped')
        work.append(s)
    visited = set()
    while work:
        n = work.pop()
        for stt in list(states.get(n.id, ())):
            if (n.id, stt) in visited:
                continue
            visited.add((n.id, stt))
            ctx.examined()
            if n is pn:
                if stt != 'executed':
                    problems.append(('lost-on-iteration', pn.ast, f'the loop pops the next event while {var} is still in state {stt} (popped event never executed)'))
                continue
            if n is g.exit:
                if stt != 'executed':
                    problems.append(('lost-on-exit', pn.ast, f'function can return with the popped event {var} in state {stt} (not executed)'))
                continue
            if n is g.rexit:
                continue
            out = stt
            exc_out = stt
            a = n.ast
            if a is not None and n.kind in ('stmt', 'cond', 'for', 'with'):
                if isinstance(a, (ast.Assign, ast.AnnAssign, ast.AugAssign)):
                    tg = a.targets if isinstance(a, ast.Assign) else [a.target]
                    if any(is_self_attr(t, sc.clock) for t in tg):
                        v = a.value
                        if v is not None and not isinstance(a, ast.AugAssign) and canon_time_of(sc, v, var):
                            if stt == 'popped':
                                out = 'clock_set'
                        elif stt in ('popped', 'clock_set'):
                            problems.append(('clock-other-value', a, f'clock written with `{short(v)}` between popping {var} and executing it'))
                    if any(isinstance(t, ast.Name) and t.id == var for t in tg) and stt != 'executed':
                        problems.append(('rebound', a, f'{var} is re-assigned before the popped event was executed'))
                if any(isinstance(c, ast.Call) and isinstance(c.func, ast.Attribute) and c.func.attr == 'execute'
                       and isinstance(c.func.value, ast.Name) and c.func.value.id == var for c in walk_shallow(a)):
                    seen_exec = True
                    if stt == 'popped':
                        problems.append(('execute-before-clock', a, f'{var}.execute() runs before the clock is set to {var}.time'))
                    elif stt == 'executed':
                        problems.append(('execute-twice', a, f'{var}.execute() can run twice for one popped event'))
                    out = 'executed'
                    exc_out = 'executed'
            none_lab = None
            if n.kind == 'cond' and a is not None:
                # `var is None`: pop_first() delivered nothing, there is no event to execute on that branch
                t_ = a
                neg = False
                while isinstance(t_, ast.UnaryOp) and isinstance(t_.op, ast.Not):
                    t_, neg = t_.operand, not neg
                if isinstance(t_, ast.Name) and t_.id == var:
                    none_lab = 'T' if neg else 'F'
                elif isinstance(t_, ast.Compare) and len(t_.ops) == 1 and isinstance(t_.left, ast.Name) and t_.left.id == var \
                        and isinstance(t_.comparators[0], ast.Constant) and t_.comparators[0].value is None:
                    if isinstance(t_.ops[0], (ast.Is, ast.Eq)):
                        none_lab = 'F' if neg else 'T'
                    elif isinstance(t_.ops[0], (ast.IsNot, ast.NotEq)):
                        none_lab = 'T' if neg else 'F'
            for (s, lab) in n.succ:
                o = exc_out if lab == 'exc' else out
                if none_lab is not None and lab == none_lab and stt == 'popped':
                    o = 'executed'
                if o not in states.setdefault(s.id, set()):
                    states[s.id].add(o)
                    work.append(s)
                elif (s.id, o) not in visited:
                    work.append(s)
    if not seen_exec:
        problems.append(('never-executed', pn.ast, f'the popped event {var} is never executed'))
    # dedupe by key
    out, keys = [], set()
    for p in problems:
        if p[0] not in keys:
            keys.add(p[0])
            out.append(p)
    return out


def canon_time_of(sc, v, var):
    """is expression v the time of event variable var"""
    t = ctext(sc.prog, 'SimEvent', v, receivers=(var,))
    fields = [f for f in ('time',)]
    r = sc.prog.simple_return('SimEvent', 'time')
    names = {f'{var}.time'}
    if r is not None and is_self_attr(r):
        names.add(f'{var}.{r.attr}')
    return t in names


# =========================================================================== R2.2 / R2.3
SCHED_METHODS = ('schedule_event', 'schedule_event_now', 'schedule_event_rel', 'schedule_event_abs')


def _event_ctor_time(call):
    """first argument (time) of a SimEvent(...) construction"""
    if isinstance(call, ast.Call) and isinstance(call.func, ast.Name) and call.func.id == 'SimEvent':
        if call.args:
            return call.args[0]
        for kw in call.keywords:
            if kw.arg == 'time':
                return kw.value
    return None


def r23_admission(ctx, sc: SimCtx):
    prog = ctx.prog
    ctx.rule('R2.2', 'the event list is filled only through the guarded entry point: every <eventlist>.add(e) outside eventlist.py is dominated by the admission guard')
    ctx.rule('R2.3', 'admission guard refuses exactly {past, not-a-number}: raise-set over (time ? clock) in {lt, eq, gt, unordered} = {lt, unordered}; negative/NaN delay refused')
    # ---- add sites
    add_sites = []
    for oc, fn, mod in prog.functions():
        if mod.name == 'eventlist':
            continue
        for n in walk_shallow(fn):
            if isinstance(n, ast.Call) and isinstance(n.func, ast.Attribute) and n.func.attr == 'add' and oc is not None \
                    and prog.is_subclass(oc.name, BASE) and sc.is_evl(n.func.value, oc.name):
                add_sites.append((oc, fn, n))
    ctx.floor('R2.2', 'event-list add() sites', len(add_sites), 1)
    guarded_entry = {}
    for (oc, fn, call) in add_sites:
        arg = call.args[0] if call.args else None
        g = CFG(fn)
        node = _node_containing(g, call)
        rg = raise_guards_before(g, node)
        timeexpr = None
        if isinstance(arg, ast.Name):
            timeexpr = ast.Attribute(value=ast.Name(id=arg.id, ctx=ast.Load()), attr='time', ctx=ast.Load())
        elif _event_ctor_time(arg) is not None:
            timeexpr = _event_ctor_time(arg)
        if timeexpr is None:
            ctx.ob('R2.2', f'{oc.name}.{fn.name}:add', False)
            ctx.finding('R2.2', f'{oc.name}.{fn.name}:add', oc, call, 'event added to the event list without an identifiable time to guard', where=f'{oc.name}.{fn.name}')
            continue
        rs = _raise_set(sc, oc.name, fn, rg, timeexpr, sc.clock_t, ('lt', 'eq', 'gt', 'un'))
        ok = rs == {'lt', 'un'}
        ctx.ob('R2.2', f'{oc.name}.{fn.name}:add', ok,
               sample=f'{oc.name}.{fn.name}: {short(call)} guarded by {[short(c) for c, _ in rg]}: refused for time?clock in {sorted(rs)}')
        guarded_entry[fn.name] = (oc, fn, rg, rs, timeexpr)
        if not ok:
            missing = {'lt', 'un'} - rs
            extra = rs - {'lt', 'un'}
            what = []
            if 'lt' in missing:
                what.append('an event in the past is accepted')
            if 'un' in missing:
                what.append('a time that is not a number (NaN) is accepted and queued')
            if extra:
                what.append(f'a valid time ({"now" if "eq" in extra else "future"}) is refused')
            ctx.finding('R2.3', f'{oc.name}.{fn.name}:guard', oc, (rg[0][0] if rg else call),
                        f'admission guard before {short(call, 40)}: ' + '; '.join(what) + f' (raise-set {sorted(rs)}, required [lt, un])',
                        where=f'{oc.name}.{fn.name}')
    # ---- public scheduling methods delegating to the guarded entry
    entry = guarded_entry.get('schedule_event')
    for m in SCHED_METHODS:
        dc, fn = prog.resolve(SIM, m)
        if fn is None:
            raise AnalysisError(f'anchor vanished: {SIM}.{m}')
        if m in guarded_entry:
            continue
        calls = [c for c in walk_shallow(fn) if isinstance(c, ast.Call) and isinstance(c.func, ast.Attribute) and is_self_attr(c.func)
                 and c.func.attr in guarded_entry]
        if not calls:
            ctx.ob('R2.3', f'{dc.name}.{m}', False)
            ctx.finding('R2.3', f'{dc.name}.{m}:no-entry', dc, fn, f'{m} does not delegate to a guarded scheduling entry point', where=f'{dc.name}.{m}')
            continue
        call = calls[0]
        eoc, efn, erg, _ers, etime = guarded_entry[call.func.attr]
        al = local_aliases(fn)
        arg = call.args[0] if call.args else None
        if isinstance(arg, ast.Name) and arg.id in al:
            arg = al[arg.id]
        t = _event_ctor_time(arg)
        if t is None:
            ctx.ob('R2.3', f'{dc.name}.{m}', False)
            ctx.finding('R2.3', f'{dc.name}.{m}:no-time', dc, call, f'{m}: cannot identify the time of the scheduled event', where=f'{dc.name}.{m}')
            continue
        t = Subst(al).visit(copy.deepcopy(t))
        g = CFG(fn)
        node = _node_containing(g, call)
        own = [(Subst(al).visit(copy.deepcopy(c)), br) for (c, br) in raise_guards_before(g, node)]
        # callee guards with the event parameter bound to the constructed event
        ep = efn.args.args[1].arg
        sub = {ep: arg}
        callee = [(Subst(sub).visit(copy.deepcopy(c)), br) for (c, br) in erg]
        ttext = sc.c(t, dc.name)
        params = [a.arg for a in fn.args.args[1:]]
        if ttext == sc.clock_t:
            dom = ('eq',)
            want = set()
            label = 'time = clock'
            rs = _raise_set(sc, dc.name, fn, own + callee, t, sc.clock_t, dom)
        elif isinstance(t, ast.BinOp) and isinstance(t.op, (ast.Add, ast.Sub)) and sc.clock_t in (sc.c(t.left, dc.name), sc.c(t.right, dc.name)) \
                and not (isinstance(t.op, ast.Sub) and sc.c(t.right, dc.name) == sc.clock_t):
            dnode = t.right if sc.c(t.left, dc.name) == sc.clock_t else t.left
            # delay negative / zero / positive / NaN.  clock + delay: derived time lt/eq/gt/un; clock - delay: the mirror image
            classes = ('neg', 'zero', 'pos', 'nan')
            tmap = {'neg': 'lt', 'zero': 'eq', 'pos': 'gt', 'nan': 'un'} if isinstance(t.op, ast.Add) else {'neg': 'gt', 'zero': 'eq', 'pos': 'lt', 'nan': 'un'}
            dmap = {'neg': 'lt', 'zero': 'eq', 'pos': 'gt', 'nan': 'un'}
            label = f'delay `{unparse(dnode)}` negative/zero/positive/NaN'
            rs_classes = set()
            for k in classes:
                r1 = _raise_set(sc, dc.name, fn, own + callee, t, sc.clock_t, (tmap[k],), delay=None)
                # guards on the delay itself
                r2 = set()
                dt = sc.c(dnode, dc.name)
                env = {('ord', dt, '0'): dmap[k], ('ord', dt, '0.0'): dmap[k], ('nan', dt): k == 'nan',
                       ('ord', sc.c(t, dc.name), sc.clock_t): tmap[k], ('nan', sc.c(t, dc.name)): k == 'nan'}
                ge = GuardEval(sc.prog, dc.name, env, sc.enums)
                hit = any((ge.ev(cd) is not None and ge.ev(cd) != br) for (cd, br) in own + callee)
                if r1 or hit:
                    rs_classes.add(k)
            dom = ('lt', 'eq', 'gt', 'un')
            back = {'neg': 'lt', 'zero': 'eq', 'pos': 'gt', 'nan': 'un'}
            rs = {back[k] for k in rs_classes}
            want = {'lt', 'un'}
        else:
            dom = ('lt', 'eq', 'gt', 'un')
            want = {'lt', 'un'}
            label = f'`{unparse(t)}` ? clock'
            rs = _raise_set(sc, dc.name, fn, own + callee, t, sc.clock_t, dom)
        ok = rs == want
        ctx.ob('R2.3', f'{dc.name}.{m}', ok, sample=f'{dc.name}.{m}: {label}: refused for {sorted(rs)} (required {sorted(want)})')
        if not ok:
            names = {'lt': 'past/negative', 'eq': 'now/zero', 'gt': 'future/positive', 'un': 'not-a-number'}
            ctx.finding('R2.3', f'{dc.name}.{m}:guard', dc, (own[0][0] if own else call),
                        f'{m}: requests with {label} are refused for {[names[x] for x in sorted(rs)]} but must be refused exactly for '
                        f'{[names[x] for x in sorted(want)]}', where=f'{dc.name}.{m}')
    ctx.exhaustive['R2.3 orderings of (time ? clock) incl. unordered'] = True
    # R2.7: the scheduling wrappers hand target / method / priority / kwargs to the event unchanged
    ctx.rule('R2.7', 'schedule_event_now/_rel/_abs construct SimEvent(time, target, method, priority, **kwargs) from their own parameters')
    for m in SCHED_METHODS:
        if m == 'schedule_event':
            continue
        dc, fn = prog.resolve(SIM, m)
        names = [a.arg for a in fn.args.args[1:]]
        ctor = [c for c in walk_shallow(fn) if isinstance(c, ast.Call) and isinstance(c.func, ast.Name) and c.func.id == 'SimEvent']
        ok = len(ctor) == 1
        got = None
        if ok:
            c = ctor[0]
            got = [unparse(a) for a in c.args[1:]] + [f'{k.arg}={unparse(k.value)}' if k.arg else f'**{unparse(k.value)}' for k in c.keywords]
            want_args = [x for x in ('target', 'method', 'priority') if x in names]
            pos = [unparse(a) for a in c.args[1:]]
            kws = {k.arg: unparse(k.value) for k in c.keywords if k.arg}
            star = [unparse(k.value) for k in c.keywords if k.arg is None]
            vals = {}
            for i, nm in enumerate(('target', 'method', 'priority')):
                vals[nm] = pos[i] if i < len(pos) else kws.get(nm)
            ok = all(vals.get(nm) == nm for nm in want_args) and (fn.args.kwarg is None or star == [fn.args.kwarg.arg])
        ctx.ob('R2.7', f'{dc.name}.{m}', ok, sample=f'{dc.name}.{m}: SimEvent(<time>, {got})')
        if not ok:
            ctx.finding('R2.7', f'{dc.name}.{m}:forwarding', dc, ctor[0] if ctor else fn,
                        f'{m} does not pass its own target / method / priority / **kwargs unchanged to SimEvent ({got}): the event runs another handler or with another tie-break priority',
                        where=f'{dc.name}.{m}')


def _node_containing(g, expr):
    for n in g.stmt_nodes():
        if n.ast is not None and any(x is expr for x in ast.walk(n.ast)):
            return n
    raise AnalysisError('CFG: call site not found in graph')


def _nodes_containing(g, expr):
    """all CFG nodes holding expr (a finally body is present twice: normal and exceptional copy)"""
    out = [n for n in g.stmt_nodes() if n.ast is not None and any(x is expr for x in ast.walk(n.ast))]
    if not out:
        raise AnalysisError('CFG: call site not found in graph')
    return out


def _raise_set(sc, cls, fn, guards, timeexpr, clock_t, domain, delay=None):
    """values of the ordering atom (time ? clock) for which at least one guard sends control to its raise branch"""
    tt = sc.c(timeexpr, cls)
    out = set()
    for rel in domain:
        env = {('ord', tt, clock_t): rel, ('nan', tt): rel == 'un'}
        if delay is not None:
            dt = sc.c(delay, cls)
            env[('ord', dt, '0')] = rel
            env[('ord', dt, '0.0')] = rel
            env[('nan', dt)] = rel == 'un'
        ge = GuardEval(sc.prog, cls, env, sc.enums)
        for (cond, br) in guards:
            v = ge.ev(cond)
            # node is reached through branch `br`; the raise is on the other branch
            if v is not None and v != br:
                out.add(rel)
                break
    return out


# =========================================================================== R2.4
def r24_literal_compare(ctx, sc: SimCtx):
    prog = ctx.prog
    ctx.rule('R2.4', 'no time-valued expression is compared with a bare numeric literal (Duration clocks raise TypeError on foreign operands)')
    # premise: a Duration-typed simulator exists and Quantity orderings raise on foreign types
    if 'DEVSSimulatorDuration' not in prog.classes:
        ctx.note('R2.4 skipped: no Duration-typed simulator in the package')
        return
    seeds = {sc.clock_t, 'self._run_until_time'}
    n = 0
    for ci, fn in sc.sim_functions():
        if ci.name == 'SimulatorWorkerThread':
            continue
        timev = set()
        params = [a.arg for a in fn.args.args[1:]]
        al = local_aliases(fn)

        def is_time(e, depth=0):
            t = sc.c(e, ci.name)
            if t in seeds or t in timev:
                return True
            if isinstance(e, ast.Attribute) and e.attr in ('time', 'end_sim_time', 'start_sim_time', 'warmup_sim_time', 'simulator_time', '_absolute_time'):
                return True
            if isinstance(e, ast.BinOp) and isinstance(e.op, (ast.Add, ast.Sub)):
                return is_time(e.left, depth + 1) or is_time(e.right, depth + 1)
            if isinstance(e, ast.Name) and e.id in al and depth < 4:
                return is_time(al[e.id], depth + 1)
            return False
        # parameters that are times: added to / subtracted from a time, compared with a time, used as SimEvent time, stored as bound
        changed = True
        while changed:
            changed = False
            for x in walk_shallow(fn):
                cand = []
                if isinstance(x, ast.BinOp) and isinstance(x.op, (ast.Add, ast.Sub)):
                    if is_time(x.left):
                        cand.append(x.right)
                    if is_time(x.right):
                        cand.append(x.left)
                elif isinstance(x, ast.Compare) and len(x.ops) == 1:
                    if is_time(x.left):
                        cand.append(x.comparators[0])
                    if is_time(x.comparators[0]):
                        cand.append(x.left)
                elif isinstance(x, ast.Call) and _event_ctor_time(x) is not None:
                    cand.append(_event_ctor_time(x))
                elif isinstance(x, ast.Assign) and any(is_self_attr(t, '_run_until_time') or is_self_attr(t, sc.clock) for t in x.targets):
                    cand.append(x.value)
                for c in cand:
                    if isinstance(c, ast.Name) and c.id in params and c.id not in timev:
                        timev.add(c.id)
                        changed = True
        for x in walk_shallow(fn):
            if isinstance(x, ast.Compare):
                operands = [x.left] + list(x.comparators)
                for a, op, b in zip(operands, x.ops, operands[1:]):
                    if isinstance(op, (ast.Is, ast.IsNot, ast.In, ast.NotIn)):
                        continue
                    for (u, v) in ((a, b), (b, a)):
                        cv = const_value(v)
                        if is_time(u) and cv is not NOCONST and isinstance(cv, (int, float)) and not isinstance(cv, bool):
                            n += 1
                            ctx.ob('R2.4', f'{ci.name}.{fn.name}:{unparse(u)}', False)
                            ctx.finding('R2.4', f'{ci.name}.{fn.name}:{unparse(u)}?literal', ci, x,
                                        f'time-valued `{unparse(u)}` is compared with the bare literal {cv!r}: on a Duration clock this raises '
                                        f'TypeError (Quantity orderings refuse foreign operands), so the method is unusable there',
                                        where=f'{ci.name}.{fn.name}')
                    if is_time(a) or is_time(b):
                        ctx.examined()
    ctx.ob('R2.4', 'time-vs-literal comparisons', n == 0, sample=f'time-valued comparisons against numeric literals in the simulator classes: {n}')


# =========================================================================== R2.5
def r25_monotone_clock(ctx, sc: SimCtx):
    prog = ctx.prog
    ctx.rule('R2.5', 'every write of the clock is a reset in initialize, the time of a popped event, or guarded by new >= old')
    nw = 0
    for oc, fn, mod in prog.functions():
        if oc is None:
            continue
        in_sim = prog.is_subclass(oc.name, BASE)
        for st in walk_shallow(fn):
            tg = []
            if isinstance(st, ast.Assign):
                tg = st.targets
            elif isinstance(st, (ast.AnnAssign, ast.AugAssign)):
                tg = [st.target]
            hit = [t for t in tg if (in_sim and is_self_attr(t, sc.clock)) or (not in_sim and isinstance(t, ast.Attribute) and t.attr == sc.clock
                                                                              and not is_self_attr(t))]
            if not hit or fn.name == '__init__':
                continue
            nw += 1
            v = st.value
            label = f'{oc.name}.{fn.name}:{short(v, 40)}'
            if not in_sim:
                ctx.ob('R2.5', label, False)
                ctx.finding('R2.5', f'{oc.name}.{fn.name}:foreign-clock-write', oc, st, 'the simulator clock is written from outside the simulator classes',
                            where=f'{oc.name}.{fn.name}', module=mod)
                continue
            vt = sc.c(v, oc.name) if v is not None else ''
            kind = None
            if fn.name == 'initialize' and vt.endswith('.start_sim_time') and not isinstance(st, ast.AugAssign):
                kind = 'reset to replication start (initialize)'
            else:
                # popped event time
                for p in walk_shallow(fn):
                    if isinstance(p, (ast.Assign, ast.AnnAssign)) and isinstance(p.value, ast.Call) and isinstance(p.value.func, ast.Attribute) \
                            and p.value.func.attr == 'pop_first':
                        pv = (p.targets[0] if isinstance(p, ast.Assign) else p.target)
                        if isinstance(pv, ast.Name) and v is not None and canon_time_of(sc, v, pv.id):
                            kind = f'time of popped event {pv.id} (monotone by C01 + R2.3)'
            if kind is None and isinstance(v, ast.Call) and unparse(v.func) == 'max' and any(sc.c(a, oc.name) == sc.clock_t for a in v.args):
                kind = 'max(clock, new)'
            if kind is None and v is not None and not isinstance(st, ast.AugAssign):
                g = CFG(fn)
                node = g.node_for(st)
                env = {('ord', vt, sc.clock_t): 'lt'}
                ge = GuardEval(prog, oc.name, env, sc.enums)
                for (c, br) in g.guard_branches(node):
                    r = ge.ev(c.ast)
                    if r is not None and r != br:
                        kind = f'guarded by `{short(c.ast, 50)}`'
                        break
            ok = kind is not None
            ctx.ob('R2.5', label, ok, sample=f'{oc.name}.{fn.name}: clock := {short(v, 40)} -- {kind or "UNGUARDED"}')
            if not ok:
                ctx.finding('R2.5', f'{oc.name}.{fn.name}:{vt}', oc, st,
                            f'clock := {short(v, 50)} is not guarded by a test that the new value is not earlier than the clock: the '
                            f'simulator time can move backwards', where=f'{oc.name}.{fn.name}')
    ctx.floor('R2.5', 'clock writes', nw, 4)


# =========================================================================== R2.6
def r26_cancel(ctx, sc: SimCtx):
    prog = ctx.prog
    ctx.rule('R2.6', 'cancel_event(e) removes exactly e from the event list and does nothing else')
    dc, fn = prog.resolve(SIM, 'cancel_event')
    if fn is None:
        raise AnalysisError('anchor vanished: DEVSSimulator.cancel_event')
    p = fn.args.args[1].arg
    calls = [c for c in walk_shallow(fn) if isinstance(c, ast.Call)]
    rm = [c for c in calls if isinstance(c.func, ast.Attribute) and c.func.attr == 'remove' and sc.is_evl(c.func.value, dc.name)
          and len(c.args) == 1 and unparse(c.args[0]) == p]
    from .effects import Effects
    effs = []
    for st in body_of(fn):
        effs += Effects(prog).of(st)
    others = [e for e in effs if not (e[0] == 'mutate' and e[1].endswith('.remove'))]
    g = CFG(fn)
    every = bool(rm) and not g.reaches(g.entry, g.exit, avoid=[n for c in rm for n in _nodes_containing(g, c)], labels_excluded=('exc', 'raise', 'reraise'))
    ok = len(rm) == 1 and not others and every
    ctx.ob('R2.6', 'DEVSSimulator.cancel_event', ok, sample=f'cancel_event: {[short(c) for c in calls]}')
    if not ok:
        ctx.finding('R2.6', 'DEVSSimulator.cancel_event', dc, fn,
                    f'cancel_event must call <eventlist>.remove({p}) exactly once, on every path, and have no other effect (remove calls {len(rm)}, on every path {every}, '
                    f'other effects {[e[1] for e in others]}): a cancelled event can still be executed',
                    where='DEVSSimulator.cancel_event')


# =========================================================================== R3.1
def find_run_loop(sc: SimCtx):
    dc, fn = sc.prog.resolve(SIM, '_run')
    if fn is None:
        raise AnalysisError('anchor vanished: DEVSSimulator._run')
    loops = [s for s in body_of(fn) if isinstance(s, ast.While)]
    if len(loops) != 1:
        raise AnalysisError('anchor vanished: DEVSSimulator._run has no single top-level while loop')
    return dc, fn, loops[0]


def next_time_atoms(sc, cls, fn):
    """texts that denote the time of the next pending event inside fn (peek_first().time and locals assigned from it)"""
    atoms = set()
    for n in walk_shallow(fn):
        if isinstance(n, ast.Attribute) and n.attr in ('time', '_absolute_time') and isinstance(n.value, ast.Call) \
                and isinstance(n.value.func, ast.Attribute) and n.value.func.attr == 'peek_first':
            atoms.add(sc.c(n, cls))
    names = set()
    for n in walk_shallow(fn):
        if isinstance(n, ast.Assign) and len(n.targets) == 1 and isinstance(n.targets[0], ast.Name):
            if sc.c(n.value, cls) in atoms:
                names.add(n.targets[0].id)
            elif isinstance(n.value, ast.Call) and isinstance(n.value.func, ast.Attribute) and n.value.func.attr == 'peek_first':
                atoms.add(f'{n.targets[0].id}.time')
    return atoms | names


def emptiness_atoms(sc, cls, fn):
    out = {}
    for n in walk_shallow(fn):
        if isinstance(n, ast.Call) and isinstance(n.func, ast.Attribute) and n.func.attr == 'is_empty' and sc.is_evl(n.func.value, cls):
            out[sc.c(n, cls)] = True
    return out


def horizon_condition(loop):
    """the condition under which the run loop stops: the test of the `if ...: ...; return` statement, or the disjunction of the
    tests of an if / elif chain all of whose branches end the run"""
    stops = [s for s in loop.body if isinstance(s, ast.If) and any(isinstance(x, ast.Return) for x in walk_shallow(s))]
    if len(stops) != 1:
        raise AnalysisError('anchor vanished: _run loop has no single `if <horizon>: ... return` statement')
    tests = []
    cur = stops[0]
    while True:
        if not (cur.body and isinstance(cur.body[-1], ast.Return)):
            raise AnalysisError('anchor vanished: a branch of the horizon test in _run does not end the run')
        tests.append(cur.test)
        if not cur.orelse:
            break
        if len(cur.orelse) == 1 and isinstance(cur.orelse[0], ast.If):
            cur = cur.orelse[0]
            continue
        raise AnalysisError('anchor vanished: the horizon test in _run has an else branch that continues the loop')
    if len(tests) == 1:
        return tests[0]
    return ast.copy_location(ast.BoolOp(op=ast.Or(), values=tests), stops[0])


def horizon_walk(ctx, sc: SimCtx, dc, fn, cases=None, entry_only=False, with_end=False):
    """For each of the 12 cases (next event ? bound) x including x list-empty, walk the flow graph of _run from its entry and from
    every pop_first() -- run state STARTED, every condition decided from the case, locals bound to the next event time / the bound
    followed along the path, undecided conditions followed both ways -- to the next pop_first() or to the end of the run.
    Required: where the specification says `stop` no pop_first() is reached; where it says `continue` every path reaches one."""
    prog = sc.prog
    g = CFG(fn)
    cls = dc.name
    atoms = {a for a in next_time_atoms(sc, cls, fn) if '.' in a}          # canonical texts of peek_first().time
    empt = emptiness_atoms(sc, cls, fn)
    aliases0 = local_aliases(fn)

    def has_pop(a):
        return a is not None and any(isinstance(c, ast.Call) and isinstance(c.func, ast.Attribute) and c.func.attr == 'pop_first' and sc.is_evl(c.func.value, cls)
                                     for c in walk_shallow(a))

    def is_peek_time(a):
        return a is not None and any(isinstance(n, ast.Attribute) and isinstance(n.value, ast.Call) and isinstance(n.value.func, ast.Attribute)
                                     and n.value.func.attr == 'peek_first' for n in walk_shallow(a))

    pops = [n for n in g.nodes if n.kind in ('stmt', 'cond', 'for', 'with') and has_pop(n.ast)]
    popvars = set()
    for n in pops:
        if isinstance(n.ast, (ast.Assign, ast.AnnAssign)):
            for t_ in (n.ast.targets if isinstance(n.ast, ast.Assign) else [n.ast.target]):
                if isinstance(t_, ast.Name):
                    popvars.add(t_.id)
    if not pops:
        raise AnalysisError('anchor vanished: DEVSSimulator._run contains no pop_first() on the event list')
    starts = [(g.entry, 'entry')] + ([] if entry_only else
                                     [(s_, f'after pop_first() at line {getattr(p.ast, "lineno", 0)}') for p in pops for (s_, lab) in p.succ if lab not in ('exc',)])
    bad = []
    where = None
    for rel, inc, empty in (cases or itertools.product(('lt', 'eq', 'gt'), (True, False), (True, False))):
        want_stop = empty or rel == 'gt' or (rel == 'eq' and not inc)
        ctx.examined()
        results = {}
        for (start, sname) in starts:
            seen = set()
            todo = [(start, ())]
            while todo:
                node, al = todo.pop()
                key = (node.id, al)
                if key in seen:
                    continue
                seen.add(key)
                ald = dict(al)
                if node is g.exit:
                    results.setdefault('stops', (sname, node))
                    continue
                if node is g.rexit:
                    continue
                if any(node is p_ for p_ in pops):
                    results.setdefault('pops', (sname, node))
                    continue
                a = node.ast
                if node.kind == 'stmt' and empty and is_peek_time(a):
                    results.setdefault('reads the time of the first event of an empty list (AttributeError)', (sname, node))
                    continue
                env = {('bool', 'self._run_until_including'): inc, 'self._run_state': 'STARTED'}
                for e_ in empt:
                    env[('bool', e_)] = empty
                for t_ in atoms:
                    env[('ord', t_, sc.bound_t)] = rel
                    env[('isnone', t_.rsplit('.', 1)[0])] = empty
                    if with_end:
                        env[('ord', t_, sc.end_t)] = rel
                for nm, kind in ald.items():
                    env[('ord', nm, sc.bound_t)] = rel if kind == 'next' else 'eq'
                    if with_end and kind == 'next':
                        env[('ord', nm, sc.end_t)] = rel
                subst = {k: v for k, v in aliases0.items() if k not in ald}
                for pv in popvars:
                    env[('isnone', pv)] = False          # walked from a pop_first() that was reached through a non-empty list
                if node.kind == 'cond':
                    r = GuardEval(prog, cls, env, sc.enums, subst=subst).ev(a)
                    for (s_, lab) in node.succ:
                        if lab == 'exc':
                            continue
                        if r is None or (lab == 'T') == r or lab not in ('T', 'F'):
                            todo.append((s_, al))
                    continue
                if node.kind == 'stmt' and isinstance(a, (ast.Assign, ast.AnnAssign)) and getattr(a, 'value', None) is not None:
                    tg = a.targets if isinstance(a, ast.Assign) else [a.target]
                    for t_ in tg:
                        if isinstance(t_, ast.Name):
                            vt = ctext(prog, cls, a.value, subst)
                            ald.pop(t_.id, None)
                            if vt in atoms:
                                ald[t_.id] = 'next'
                            elif vt == sc.bound_t:
                                ald[t_.id] = 'bound'
                            elif isinstance(a.value, ast.Name) and a.value.id in dict(al):
                                ald[t_.id] = dict(al)[a.value.id]
                            elif t_.id in aliases0:
                                pass
                            else:
                                ald[t_.id] = None
                    ald = {k: v for k, v in ald.items()}
                al2 = tuple(sorted((k, v) for k, v in ald.items() if v is not None))
                for (s_, lab) in node.succ:
                    if lab in ('exc', 'raise', 'reraise'):
                        continue
                    todo.append((s_, al2))
        got = sorted(results)
        good = got == (['stops'] if want_stop else ['pops'])
        if not good:
            wrong = [k for k in got if k != ('stops' if want_stop else 'pops')] or got
            if not got:
                desc = 'reaches neither a pop_first() nor the end of the run'
            else:
                k = wrong[0]
                sname, node = results[k]
                desc = (f'{k}' if k not in ('stops', 'pops') else ('can stop' if k == 'stops' else 'can execute the next event')) + f' (path from {sname})'
                if where is None:
                    where = node.ast if node.ast is not None else None
            bad.append((rel, inc, empty, desc, want_stop))
    return bad, where


def r31_horizon(ctx, sc: SimCtx):
    prog = ctx.prog
    ctx.rule('R3.1', 'horizon test of _run: stop <=> list empty or next time > bound or (next time == bound and not including), over all 12 cases; bound/including written per command')
    dc, fn = prog.resolve(SIM, '_run')
    if fn is None:
        raise AnalysisError('anchor vanished: DEVSSimulator._run')
    try:
        cond = horizon_condition(find_run_loop(sc)[2])
        desc = f'_run stops when `{short(cond, 110)}`'
    except AnalysisError:
        cond, desc = None, '_run (horizon test spread over several statements)'
    bad, where_node = horizon_walk(ctx, sc, dc, fn)
    ok = not bad
    ctx.exhaustive['R3.1 (next ? bound) x including x empty'] = True
    ctx.ob('R3.1', '_run:horizon-predicate', ok, sample=f'{desc}: 12 cases walked from the entry and from every pop_first() to the next pop_first() / the end of the run, mismatches {len(bad)}')
    if not ok:
        rel, inc, empty, got, want = bad[0]
        ctx.finding('R3.1', 'DEVSSimulator._run:horizon-predicate', dc, where_node if where_node is not None else (cond if cond is not None else fn),
                    f'horizon test disagrees with the specification in {len(bad)}/12 cases, e.g. next event {rel} bound, including={inc}, '
                    f'list empty={empty}: code {got}, required {"stops" if want else "executes the next event"}', where='DEVSSimulator._run',
                    extra={'mismatches': [str(b) for b in bad]})
    # ---- writers of bound / including per command
    want = {'start': ('self._replication.end_sim_time', True), 'run_up_to': ('<param>', False), 'run_up_to_including': ('<param>', True)}
    for m, (wb, wi) in want.items():
        got = command_bound(sc, m)
        gb, gi = got
        param = None
        c2, f2 = prog.resolve(SIM, m)
        if len(f2.args.args) > 1:
            param = f2.args.args[1].arg
        okb = (gb == wb) or (wb == '<param>' and param is not None and gb == param)
        oki = gi is wi
        ctx.ob('R3.1', f'{m}:bound', okb and oki, sample=f'{m}: bound := {gb}, including := {gi}')
        if not (okb and oki):
            ctx.finding('R3.1', f'Simulator.{m}:bound', c2, f2,
                        f'{m} runs with bound `{gb}` / including={gi}; required bound `{wb if wb != "<param>" else param}` / including={wi}',
                        where=f'Simulator.{m}')


    # ---- ... and on every accepted path: the method that stores the bound and the inclusiveness stores both whenever it returns normally (a
    # store under a condition -- only on the first start of a replication -- lets a later command run with the flag of an earlier one)
    for ci_, f_ in sc.sim_functions():
        for fld in ('_run_until_time', '_run_until_including'):
            sts = [a for a in walk_shallow(f_) if isinstance(a, (ast.Assign, ast.AnnAssign)) and getattr(a, 'value', None) is not None
                   and any(is_self_attr(t, fld) for t in (a.targets if isinstance(a, ast.Assign) else [a.target]))]
            if not sts or f_.name in ('__init__', 'initialize', 'cleanup', '__setstate__'):
                continue
            g_ = CFG(f_)
            nodes_ = [g_.node_for(a) for a in sts]
            if any(x is None for x in nodes_):
                continue
            skipped = g_.reaches(g_.entry, g_.exit, avoid=nodes_, labels_excluded=('exc', 'raise', 'reraise'))
            ctx.ob('R3.1', f'{ci_.name}.{f_.name}:{fld}:every-accepted-path', not skipped,
                   sample=f'{ci_.name}.{f_.name}: a normal exit without a store of {fld} is reachable: {skipped}')
            if skipped:
                ctx.finding('R3.1', f'{ci_.name}.{f_.name}:{fld}:not-on-every-path', ci_, sts[0],
                            f'{ci_.name}.{f_.name} can accept a run command without storing `{fld}` (`{short(sts[0])}` is skipped on some accepting path): the run then '
                            f'uses the value left by an earlier command -- a piece of a split run inherits the bound / inclusiveness of the piece before it',
                            where=f'{ci_.name}.{f_.name}')


def command_bound(sc: SimCtx, m):
    """(canonical text of the value stored in _run_until_time, constant stored in _run_until_including) by command m"""
    prog = sc.prog
    dc, fn = prog.resolve(SIM, m)
    if fn is None:
        raise AnalysisError(f'anchor vanished: {SIM}.{m}')
    res = {'_run_until_time': None, '_run_until_including': None}

    # the command's own parameter is a time (not None); constants passed down decide `x is None` tests in the callee
    env0 = {('isnone', a.arg): False for a in fn.args.args[1:]}

    def decided(val, sub):
        v = Subst(sub).visit(copy.deepcopy(val))
        while isinstance(v, ast.IfExp):
            r = GuardEval(prog, dc.name, env0, sc.enums).ev(v.test)
            if r is None:
                break
            v = v.body if r else v.orelse
        if isinstance(v, ast.BoolOp) and isinstance(v.op, ast.Or) and isinstance(v.values[0], ast.Constant) and v.values[0].value is None:
            v = v.values[1] if len(v.values) == 2 else ast.BoolOp(op=ast.Or(), values=v.values[1:])      # `None or x` is x
        return v

    def scan(cls, f, sub, depth):
        g = None
        for n in walk_shallow(f):
            if isinstance(n, ast.Assign):
                for t in n.targets:
                    for k in res:
                        if is_self_attr(t, k):
                            if g is None:
                                g = CFG(f)
                            dead = False
                            try:
                                for (cn, br) in g.guard_branches(g.node_for(n)):
                                    r = GuardEval(prog, dc.name, env0, sc.enums).ev(Subst(sub).visit(copy.deepcopy(cn.ast)))
                                    if r is not None and r != br:
                                        dead = True
                            except AnalysisError:
                                pass
                            if not dead:
                                res[k] = decided(n.value, sub)
            elif isinstance(n, ast.Call) and depth < 3:
                sck = self_call_kind(n, prog)
                if sck and sck[0] in ('self', 'super'):
                    c2, f2 = prog.resolve(SIM, sck[1]) if sck[0] == 'self' else prog.resolve(SIM, sck[1], after=cls)
                    if f2 is not None and f2 is not f:
                        b = bind_args(f2, n, sck[0])
                        b = {k: Subst(sub).visit(copy.deepcopy(v)) for k, v in b.items()}
                        scan(c2.name, f2, b, depth + 1)
    scan(dc.name, fn, {}, 0)
    b = res['_run_until_time']
    i = res['_run_until_including']
    return (sc.c(b, dc.name) if b is not None else None, const_value(i) if i is not None else None)


# =========================================================================== R3.2
def r32_ending(ctx, sc: SimCtx):
    prog = ctx.prog
    ctx.rule('R3.2', 'ReplicationState.ENDING is written only at the replication end: outside end_replication the write is unreachable while clock/bound < end')
    n = 0
    for ci, fn in sc.sim_functions():
        for st in walk_shallow(fn):
            if not (isinstance(st, ast.Assign) and unparse(st.value) == 'ReplicationState.ENDING'
                    and any(isinstance(t, ast.Attribute) and t.attr == '_replication_state' for t in st.targets)):
                continue
            n += 1
            if fn.name == 'end_replication':
                ctx.ob('R3.2', f'{ci.name}.{fn.name}', True, sample=f'{ci.name}.end_replication writes ENDING (the explicit command)')
                continue
            g = CFG(fn)
            node = g.node_for(st)
            env = {('ord', sc.clock_t, sc.end_t): 'lt', ('ord', sc.bound_t, sc.end_t): 'lt',
                   ('ord', 'self._job.' + sc.clock, 'self._job._replication.end_sim_time'): 'lt'}
            ge = GuardEval(prog, ci.name, env, sc.enums)
            blocked = None
            for (c, br) in g.guard_branches(node):
                r = ge.ev(c.ast)
                if r is not None and r != br:
                    blocked = c.ast
            # the guard must test the value the clock has at that point: a clock write between guard and ENDING is fine only if
            # the guard is on the new value; accepted as is (the guard dominates the write).
            ok = blocked is not None
            ctx.ob('R3.2', f'{ci.name}.{fn.name}', ok, sample=f'{ci.name}.{fn.name}: ENDING written under `{short(blocked, 60) if blocked is not None else "NO GUARD"}`')
            if not ok:
                ctx.finding('R3.2', f'{ci.name}.{fn.name}:ENDING', ci, st,
                            'ReplicationState.ENDING is written without a dominating test that the clock (or bound) reached the replication end: '
                            'a bounded run that stops early ends the replication for ever (start() is refused afterwards)',
                            where=f'{ci.name}.{fn.name}')
    ctx.floor('R3.2', 'writes of ENDING', n, 2)


# =========================================================================== R3.3
def r33_pop_horizon(ctx, sc: SimCtx):
    prog = ctx.prog
    ctx.rule('R3.3', 'every pop_first() is dominated by a test of the next event time against the bound / replication end')
    n = 0
    for ci, fn in sc.sim_functions():
        for call in walk_shallow(fn):
            if not (isinstance(call, ast.Call) and isinstance(call.func, ast.Attribute) and call.func.attr == 'pop_first'
                    and sc.is_evl(call.func.value, ci.name)):
                continue
            n += 1
            g = CFG(fn)
            node = _node_containing(g, call)
            tnames = next_time_atoms(sc, ci.name, fn)
            env = {}
            for t in tnames:
                env[('ord', t, sc.bound_t)] = 'gt'
                env[('ord', t, sc.end_t)] = 'gt'
            for e in emptiness_atoms(sc, ci.name, fn):
                env[('bool', e)] = False
            env[('bool', 'self._run_until_including')] = True
            ge = GuardEval(prog, ci.name, env, sc.enums, subst=local_aliases(fn))
            blocked = None
            for (c, br) in g.guard_branches(node):
                r = ge.ev(c.ast)
                if r is not None and r != br:
                    blocked = c.ast
            # `if horizon: return` style: node reached via the False branch of the horizon if
            ok = blocked is not None
            if not ok:
                # the test may be spread over several statements / branches: walk the paths from the entry for an event beyond bound and end
                try:
                    bad_, _w = horizon_walk(ctx, sc, ci, fn, cases=[('gt', True, False)], entry_only=True, with_end=True)
                    ok = not bad_
                    if ok:
                        blocked = ast.Constant(value='no path from the entry reaches it in that case')
                except AnalysisError:
                    pass
            ctx.ob('R3.3', f'{ci.name}.{fn.name}:pop_first', ok,
                   sample=f'{ci.name}.{fn.name}: pop_first() unreachable when next event is beyond the bound/end: {ok}'
                          + (f' (by `{short(blocked, 60)}`)' if ok else ''))
            if not ok:
                ctx.finding('R3.3', f'{ci.name}.{fn.name}:pop_first', ci, call,
                            'pop_first() is not dominated by a comparison of the next event time with the run bound / replication end: '
                            'an event later than the replication end can be executed', where=f'{ci.name}.{fn.name}')
    ctx.floor('R3.3', 'pop_first() call sites', n, 2)


# =========================================================================== R3.4
def r34_bound_clamped(ctx, sc: SimCtx):
    prog = ctx.prog
    ctx.rule('R3.4', 'a caller-supplied bound beyond the replication end is clamped or refused before it is stored')
    for m in ('run_up_to', 'run_up_to_including'):
        dc, fn = prog.resolve(SIM, m)
        p = fn.args.args[1].arg if len(fn.args.args) > 1 else None
        gb, _gi = command_bound(sc, m)
        ok = False
        why = ''
        if gb is not None and gb != p:
            # stored value differs from the raw parameter: min(p, end)?
            if gb.startswith('min(') and 'end_sim_time' in gb:
                ok = True
                why = f'clamped: {gb}'
        if not ok:
            # refused when > end: a raise guard on the path that is true for p > end
            guards = _collect_guards(sc, dc.name, fn, depth=0)
            env = {('ord', p, sc.end_t): 'gt', ('ord', sc.bound_t, sc.end_t): 'gt'}
            ge = GuardEval(prog, dc.name, env, sc.enums)
            for (c, sub) in guards:
                r = GuardEval(prog, dc.name, env, sc.enums, subst=sub).ev(c)
                if r is True:
                    ok = True
                    why = f'refused by `{short(c, 50)}`'
        ctx.ob('R3.4', f'Simulator.{m}', ok, sample=f'{m}({p}): stored bound `{gb}`; {why or "neither clamped nor refused beyond the replication end"}')
        if not ok:
            ctx.finding('R3.4', f'Simulator.{m}:bound-beyond-end', dc, fn,
                        f'{m}({p}) stores the bound unchanged even when it lies beyond the replication end: events later than the end are executed',
                        where=f'Simulator.{m}')


def _collect_guards(sc, cls, fn, depth, sub=None):
    """[(cond, subst)] of `if cond: raise` statements on the straight-line path of fn and its self-callees"""
    out = []
    sub = sub or {}
    for st in body_of(fn):
        if isinstance(st, ast.If) and any(isinstance(x, ast.Raise) for x in st.body):
            out.append((st.test, dict(sub)))
        elif isinstance(st, ast.Expr) and isinstance(st.value, ast.Call) and depth < 3:
            sck = self_call_kind(st.value, sc.prog)
            if sck and sck[0] in ('self', 'super'):
                c2, f2 = sc.prog.resolve(SIM, sck[1]) if sck[0] == 'self' else sc.prog.resolve(SIM, sck[1], after=cls)
                if f2 is not None:
                    b = bind_args(f2, st.value, sck[0])
                    b = {k: Subst(sub).visit(copy.deepcopy(v)) for k, v in b.items()}
                    out += _collect_guards(sc, c2.name, f2, depth + 1, b)
    return out


# ===========================================================================================================
# Part B: lifecycle protocol (R4.x)
# ===========================================================================================================
from .effects import RBE, Effects, FIRES  # noqa: E402

COMMANDS = ('initialize', 'start', 'step', 'stop', 'run_up_to', 'run_up_to_including', 'end_replication', 'cleanup')


def _slug(text, n=48):
    import re
    t = re.sub(r'[^A-Za-z0-9]+', '-', text).strip('-')
    return t[:n]


def rbe_check(ctx, rule, cls, methods, what, floor=None, rbe=None, discharge=None):
    """refuse-before-effect for cls.methods; one finding per (entry, raise site)"""
    prog = ctx.prog
    rbe = rbe or RBE(prog)
    n = 0
    for m in methods:
        dc, fn = prog.resolve(cls, m)
        if fn is None:
            raise AnalysisError(f'anchor vanished: {cls}.{m}')
        s, viol = rbe.check(cls, m)
        if discharge is not None and viol:
            kept = [v for v in viol if not discharge(cls, m, v)]
            if len(kept) != len(viol):
                ctx.extra.setdefault('callee_refusals_unreachable', []).append(f'{cls}.{m}: {len(viol) - len(kept)} refusal(s) in called methods not reachable with the arguments passed')
            viol = kept
        n += 1
        ctx.examined(len(s['raises']) + 1)
        ok = not viol
        ctx.ob(rule, f'{cls}.{m}', ok, sample=f'{cls}.{m}: {len(s["raises"])} feasible raise sites, effect-before-refusal paths: {len(viol)}')
        seen = set()
        for v in viol:
            msg = v.site.text
            exc = msg[msg.find('(') + 1:] if '(' in msg else msg
            key = f'{dc.name}.{m}:{v.site.where}:{_slug(exc)}'
            if key in seen:
                continue
            seen.add(key)
            ci = prog.classes.get(v.site.where.split('.')[0])
            ctx.finding(rule, key, ci, v.site.node,
                        f'{what}: `{v.site.text}` (reached via {" > ".join(v.site.chain)}) can be raised after the effect '
                        f'`{v.effect}` at {v.effect_where}:{v.effect_line}',
                        where=f'{dc.name}.{m}', extra={'entry': f'{cls}.{m}', 'call_chain': v.site.chain, 'first_effect': v.effect,
                                                       'effect_at': f'{v.effect_where}:{v.effect_line}'})
    if rbe.depth_exceeded:
        raise AnalysisError(f'{rule}: inlining bound exceeded: {sorted(set(rbe.depth_exceeded))[:3]}')
    if floor is not None:
        ctx.floor(rule, 'commands analysed', n, floor)
    ctx.extra.setdefault('infeasible_callee_raises_discarded', [])
    ctx.extra['infeasible_callee_raises_discarded'] = sorted(set(ctx.extra['infeasible_callee_raises_discarded']) | set(rbe.filtered))[:40]
    return rbe


def r41_refuse_before_effect(ctx, sc: SimCtx):
    ctx.rule('R4.1', 'a refused command changes nothing and notifies nobody: no field write / container mutation / fire on any path to a raise (callee raises filtered by guard subsumption)')
    ctx.assume('names bound to elements of the object\'s own containers are well typed (listener lists hold listeners)')
    rbe_check(ctx, 'R4.1', SIM, COMMANDS + ('set_error_strategy',), 'refused command has already taken effect', floor=7)


# --------------------------------------------------------------------------- R4.2
def admission_outcomes(sc: SimCtx, cmd, env, descend=('_start_impl',)):
    """set of outcomes {'admitted', 'refused:<msg>'} of command cmd under the abstract state env"""
    prog = sc.prog
    dc, fn = prog.resolve(SIM, cmd)
    ge = GuardEval(prog, SIM, env, sc.enums)
    outcomes = set()
    ambiguous = []

    def walk(stmts, def_cls, depth):
        for s in stmts:
            if isinstance(s, ast.If):
                v = ge.ev(s.test)
                branches = []
                if v is None:
                    ambiguous.append(short(s.test, 60))
                if v is not False:
                    branches.append(s.body)
                if v is not True:
                    branches.append(s.orelse)
                fell = False
                for b in branches:
                    if walk(b, def_cls, depth):
                        fell = True
                if not fell:
                    return False
                continue
            if isinstance(s, ast.Raise):
                outcomes.add('refused: ' + short(s.exc, 70) if s.exc is not None else 'refused')
                return False
            if isinstance(s, ast.Return):
                return True     # command body done without refusal on this path
            if isinstance(s, ast.Expr) and isinstance(s.value, ast.Call) and depth < 3:
                sck = self_call_kind(s.value, prog)
                if sck is not None and sck[1] not in FIRES:
                    same = sck[0] == 'super' and sck[1] == cmd
                    helper = sck[0] == 'self' and sck[1] in descend
                    if same or helper:
                        d2, f2 = prog.resolve(SIM, sck[1], after=def_cls) if sck[0] == 'super' else prog.resolve(SIM, sck[1])
                        if f2 is not None:
                            if not walk(body_of(f2), d2.name, depth + 1):
                                return False
                            continue
            if isinstance(s, ast.Try):
                # guards inside try-blocks do not occur in commands today; effects only
                continue
        return True
    if walk(body_of(fn), dc.name, 0):
        outcomes.add('admitted')
    return outcomes, ambiguous


def r42_admission_tables(ctx, sc: SimCtx):
    ctx.rule('R4.2', 'admission table of every command over RunState x ReplicationState x (replication is None) x (clock ? end) equals the documented rules')
    RS = list(sc.enums['RunState'])
    PS = list(sc.enums['ReplicationState'])
    if len(RS) != 7 or len(PS) != 5:
        raise AnalysisError(f'R4.2: RunState/ReplicationState have {len(RS)}/{len(PS)} members; the reference tables are written for 7/5')
    active = {'STARTING', 'STARTED'}

    def spec_start(rs, ps, none, rel):
        return rs not in active | {'NOT_INITIALIZED'} and not none and ps in ('INITIALIZED', 'STARTED') and rel == 'lt'
    specs = {
        'start': spec_start, 'run_up_to': spec_start, 'run_up_to_including': spec_start, 'step': spec_start,
        'stop': lambda rs, ps, none, rel: rs in active,
        'initialize': lambda rs, ps, none, rel: rs not in active,
    }
    typeatoms = {('bool', 'isinstance(model, ModelInterface)'): True, ('bool', "hasattr(model, '_simulator')"): True,
                 ('bool', 'isinstance(replication, ReplicationInterface)'): True}
    for cmd, spec in specs.items():
        mism = []
        amb = set()
        nstates = 0
        adm = 0
        for rs, ps, none, rel in itertools.product(RS, PS, (False, True), ('lt', 'eq', 'gt')):
            # consistent abstract states only: a simulator without replication is NOT_INITIALIZED
            if none and rs != 'NOT_INITIALIZED':
                continue
            nstates += 1
            env = {'self._run_state': rs, 'self._replication_state': ps, ('isnone', 'self._replication'): none,
                   ('ord', sc.clock_t, sc.end_t): rel}
            env.update(typeatoms)
            if cmd == 'initialize':
                # arguments with a well-formed replication (warm-up not before start)
                env[('ord', 'replication.warmup_sim_time', 'replication.start_sim_time')] = 'eq'
            out, a = admission_outcomes(sc, cmd, env)
            ctx.examined()
            amb |= set(a)
            want = spec(rs, ps, none, rel)
            if out == {'admitted'}:
                adm += 1
            definite = len(out) == 1 and not a
            if definite and (out == {'admitted'}) != want:
                mism.append(((rs, ps, 'no-replication' if none else 'replication', f'clock {rel} end'), sorted(out), 'admitted' if want else 'refused'))
            elif not definite and len(out) == 1 and (out == {'admitted'}) != want:
                mism.append(((rs, ps, 'no-replication' if none else 'replication', f'clock {rel} end'), sorted(out), 'admitted' if want else 'refused'))
        ok = not mism
        ctx.exhaustive[f'R4.2 {cmd}: {nstates} abstract states'] = True
        ctx.ob('R4.2', cmd, ok, sample=f'{cmd}: admitted in {adm}/{nstates} abstract states; mismatches with the documented rules: {len(mism)}'
                                       + (f'; undetermined guard atoms {sorted(amb)}' if amb else ''))
        if amb:
            ctx.note(f'R4.2 {cmd}: guards with atoms outside the abstract state, treated as either way: {sorted(amb)}')
        if not ok:
            st, got, want = mism[0]
            dc, fn = ctx.prog.resolve(SIM, cmd)
            ctx.finding('R4.2', f'Simulator.{cmd}:admission', dc, fn,
                        f'{cmd}: in {len(mism)} of {nstates} abstract states the code disagrees with the documented protocol, e.g. state {st}: '
                        f'code {got}, protocol says {want}', where=f'{dc.name}.{cmd}', extra={'mismatches': [str(m) for m in mism[:12]]})


# --------------------------------------------------------------------------- R4.3
def _fires_of(fn, evname):
    """call nodes self.fire*(…, <X>.<evname>, …) / self._job.fire*(...) in fn"""
    out = []
    for n in walk_shallow(fn):
        if isinstance(n, ast.Call) and isinstance(n.func, ast.Attribute) and n.func.attr in FIRES:
            for a in n.args:
                if isinstance(a, ast.Attribute) and a.attr == evname:
                    out.append(n)
    return out


def _writes_of(fn, field, value_text):
    out = []
    for n in walk_shallow(fn):
        if isinstance(n, ast.Assign) and any(isinstance(t, ast.Attribute) and t.attr == field for t in n.targets) \
                and (value_text is None or unparse(n.value) == value_text):
            out.append(n)
    return out


def r43_notifications(ctx, sc: SimCtx):
    prog = ctx.prog
    ctx.rule('R4.3', 'notification stream shape: START/STOP paired on every path, replication start/end fired once under their state tests, TIME_CHANGED carries the popped event time, one warm-up per initialize')
    NORMAL = ('exc', 'raise', 'reraise')
    # (i) pairing
    nstart = 0
    for ci, fn in sc.sim_functions():
        starts = _fires_of(fn, 'START_EVENT')
        if not starts:
            continue
        g = CFG(fn)
        stops = [n for c in _fires_of(fn, 'STOP_EVENT') for n in _nodes_containing(g, c)]
        for c in starts:
            nstart += 1
            sn = _node_containing(g, c)
            # loop heads that enclose the START fire: reaching one again means the next iteration started without STOP
            heads = [h for h in g.nodes if h.kind == 'cond' and isinstance(h.stmt, ast.While) and any(x is c for x in ast.walk(h.stmt))]
            excl = () if fn.name == 'step' else NORMAL
            bad = g.reaches(sn, g.exit, avoid=stops, labels_excluded=excl) or any(g.reaches(sn, h, avoid=stops, labels_excluded=excl) for h in heads)
            if fn.name == 'step':
                bad = bad or g.reaches(sn, g.rexit, avoid=stops)
            ok = not bad
            ctx.ob('R4.3', f'{ci.name}.{fn.name}:START-STOP', ok, sample=f'{ci.name}.{fn.name}: START_EVENT is followed by STOP_EVENT on every '
                   f'{"path incl. exceptional" if fn.name == "step" else "normal path"}: {ok}')
            if not ok:
                ctx.finding('R4.3', f'{ci.name}.{fn.name}:START-without-STOP', ci, c,
                            'a START_EVENT notification can be followed by the end of the function / the next loop iteration without a STOP_EVENT: '
                            'subscribers see start notifications that do not alternate with stop notifications', where=f'{ci.name}.{fn.name}')
    ctx.floor('R4.3', 'START_EVENT fire sites', nstart, 2)
    # (ii) once-only replication events
    nrep = 0
    for ci, fn in sc.sim_functions():
        for (ev, state_from, state_to) in (('START_REPLICATION_EVENT', 'INITIALIZED', 'STARTED'), ('END_REPLICATION_EVENT', 'ENDING', 'ENDED')):
            for c in _fires_of(fn, ev):
                nrep += 1
                g = CFG(fn)
                node = _node_containing(g, c)
                # dominated by a test that the replication state is state_from
                dominated = False
                for other in sc.enums['ReplicationState']:
                    if other == state_from:
                        continue
                    env = {'self._replication_state': other, 'self._job._replication_state': other}
                    ge = GuardEval(prog, ci.name, env, sc.enums)
                    blocked = any((ge.ev(cn.ast) is not None and ge.ev(cn.ast) != br) for (cn, br) in g.guard_branches(node))
                    if not blocked:
                        dominated = False
                        break
                    dominated = True
                writes = [g.node_for(w) for w in _writes_of(fn, '_replication_state', f'ReplicationState.{state_to}')]
                moved = bool(writes) and (any(g.dominates(w, node) for w in writes)
                                          or not g.reaches(node, g.exit, avoid=writes, labels_excluded=NORMAL))
                # the state write must sit under the same guard (not reachable without firing or having fired)
                ok = dominated and moved
                ctx.ob('R4.3', f'{ci.name}.{fn.name}:{ev}', ok,
                       sample=f'{ci.name}.{fn.name}: {ev} fired only when replication state == {state_from}: {dominated}; state := {state_to} on the same path: {moved}')
                if not ok:
                    ctx.finding('R4.3', f'{ci.name}.{fn.name}:{ev}', ci, c,
                                f'{ev} can be fired more than once or at the wrong moment: fired under `replication_state == {state_from}` test: '
                                f'{dominated}; replication_state := {state_to} on every such path: {moved}', where=f'{ci.name}.{fn.name}')
                if ev == 'END_REPLICATION_EVENT':
                    # the end of the replication is announced last: both states already read ENDED when listeners are told, and no
                    # state is written after the notification (a listener may start the next replication from inside notify)
                    rw = [g.node_for(w) for w in _writes_of(fn, '_run_state', 'RunState.ENDED')]
                    before = bool(writes) and bool(rw) and any(g.dominates(w, node) for w in writes) and any(g.dominates(w, node) for w in rw)
                    later = []
                    for fld in ('_run_state', '_replication_state'):
                        for w in _writes_of(fn, fld, None):
                            wn = g.node_for(w)
                            if wn is not node and g.reaches(node, wn, avoid=[h for h in g.nodes if h.kind == 'cond' and isinstance(h.stmt, ast.While)]):
                                later.append(w)
                    ok2 = before and not later
                    ctx.ob('R4.3', f'{ci.name}.{fn.name}:{ev}:last', ok2, sample=f'{ci.name}.{fn.name}: both states are ENDED before {ev} is fired: {before}; state writes after it: {len(later)}')
                    if not ok2:
                        ctx.finding('R4.3', f'{ci.name}.{fn.name}:{ev}:not-last', ci, later[0] if later else c,
                                    f'{ev} is not the last act of the replication: run state / replication state are written after the notification '
                                    f'({[short(w) for w in later[:2]]}) or are not yet ENDED when it is delivered; a listener that reads the state sees the replication '
                                    'still running, and a command it issues (initialize for the next replication, cleanup) is overwritten afterwards', where=f'{ci.name}.{fn.name}')
    ctx.floor('R4.3', 'replication start/end fire sites', nrep, 3)
    # (iii) TIME_CHANGED carries the time of the popped event, between pop and execute
    ntc = 0
    for ci, fn in sc.sim_functions():
        pops = [st for st in walk_shallow(fn) if isinstance(st, (ast.Assign, ast.AnnAssign)) and isinstance(st.value, ast.Call)
                and isinstance(st.value.func, ast.Attribute) and st.value.func.attr == 'pop_first']
        for st in pops:
            tgt = st.targets[0] if isinstance(st, ast.Assign) else st.target
            if not isinstance(tgt, ast.Name):
                continue
            var = tgt.id
            ntc += 1
            g = CFG(fn)
            pn = g.node_for(st)
            fires = _fires_of(fn, 'TIME_CHANGED_EVENT')
            good = False
            why = 'no TIME_CHANGED_EVENT fire'
            for c in fires:
                fnode = _node_containing(g, c)
                execs = [n for n in g.stmt_nodes() if n.ast is not None and any(
                    isinstance(x, ast.Call) and isinstance(x.func, ast.Attribute) and x.func.attr == 'execute' and unparse(x.func.value) == var
                    for x in walk_shallow(n.ast))]
                between = g.reaches(pn, fnode) and any(g.reaches(fnode, e) for e in execs) and not any(g.reaches(e, fnode, avoid=(pn,)) for e in execs)
                args_ok = c.func.attr == 'fire_timed' and len(c.args) >= 3 and canon_time_of(sc, c.args[0], var) and canon_time_of(sc, c.args[2], var)
                if between and args_ok:
                    good = True
                else:
                    why = f'fire `{short(c, 70)}`: between pop and execute {between}; timestamp and payload are {var}.time: {args_ok}'
            ctx.ob('R4.3', f'{ci.name}.{fn.name}:TIME_CHANGED', good, sample=f'{ci.name}.{fn.name}: TIME_CHANGED_EVENT({var}.time) fired between pop and execute: {good}')
            if not good:
                ctx.finding('R4.3', f'{ci.name}.{fn.name}:TIME_CHANGED', ci, st,
                            f'time-changed notification for the popped event {var} is wrong or missing ({why})', where=f'{ci.name}.{fn.name}')
    ctx.floor('R4.3', 'pop sites with TIME_CHANGED', ntc, 2)
    # (iv) warm-up
    warmup_schedule(ctx, sc, 'R4.3')


def warmup_schedule(ctx, sc: SimCtx, rule='R4.3'):
    """one WARMUP_EVENT per initialize: warmup() fires it at the clock; initialize schedules it once, after the base
    initialisation has reset the clock, at the absolute warm-up time of the replication"""
    prog = ctx.prog
    NORMAL = ('exc', 'raise', 'reraise')
    dc, wf = prog.resolve(SIM, 'warmup')
    if wf is None:
        raise AnalysisError('anchor vanished: Simulator.warmup')
    fires = _fires_of(wf, 'WARMUP_EVENT')
    ok = len(fires) == 1 and fires[0].func.attr == 'fire_timed' and sc.c(fires[0].args[0], dc.name) == sc.clock_t
    ctx.ob(rule, 'Simulator.warmup', ok, sample=f'warmup(): {short(fires[0], 80) if fires else "no fire"}')
    if not ok:
        ctx.finding(rule, 'Simulator.warmup', dc, wf, 'warmup() does not fire exactly one WARMUP_EVENT timestamped with the clock', where='Simulator.warmup')
    dc, inf = prog.resolve(SIM, 'initialize')
    g = CFG(inf)
    sched = [c for c in walk_shallow(inf) if isinstance(c, ast.Call) and isinstance(c.func, ast.Attribute) and c.func.attr.startswith('schedule_event')
             and any(isinstance(a, ast.Constant) and a.value == 'warmup' for a in c.args)]
    sup = [c for c in walk_shallow(inf) if isinstance(c, ast.Call) and isinstance(c.func, ast.Attribute) and is_super_call(c.func.value) and c.func.attr == 'initialize']
    in_loop = any(isinstance(l, (ast.For, ast.While)) and any(x is c for x in ast.walk(l)) for l in walk_shallow(inf) for c in sched)
    ok = len(sched) == 1 and len(sup) == 1 and not in_loop and g.dominates(_node_containing(g, sup[0]), _node_containing(g, sched[0])) \
        and not g.reaches(g.entry, g.exit, avoid=[_node_containing(g, sched[0])], labels_excluded=NORMAL)
    tm = None
    if sched:
        a0 = sched[0].args[0] if sched[0].args else None
        tm = sc.c(a0, dc.name) if a0 is not None else None
        ok = ok and tm is not None and tm.endswith('.warmup_sim_time')
    ctx.ob(rule, 'DEVSSimulator.initialize:warmup', ok, sample=f'initialize schedules warm-up once, after super().initialize, at `{tm}`: {ok}')
    if not ok:
        ctx.finding(rule, 'DEVSSimulator.initialize:warmup-schedule', dc, sched[0] if sched else inf,
                    'initialize must schedule exactly one warm-up event at replication.warmup_sim_time, after the base initialisation, on every path',
                    where='DEVSSimulator.initialize')


# --------------------------------------------------------------------------- R4.4
def r44_wait_clear(ctx, sc: SimCtx):
    prog = ctx.prog
    ctx.rule('R4.4', 'lost wake-up: in a loop that wait()s and clear()s one threading.Event, clear() follows wait() with nothing but flag assignments in between')
    n = 0
    for ci in prog.classes.values():
        for fn in ci.methods.values():
            waits = [c for c in walk_shallow(fn) if isinstance(c, ast.Call) and isinstance(c.func, ast.Attribute) and c.func.attr == 'wait' and is_self_attr(c.func.value)]
            for w in waits:
                fld = w.func.value.attr
                clears = [c for c in walk_shallow(fn) if isinstance(c, ast.Call) and isinstance(c.func, ast.Attribute) and c.func.attr == 'clear'
                          and is_self_attr(c.func.value, fld)]
                if not clears:
                    continue
                n += 1
                g = CFG(fn)
                wn = _node_containing(g, w)
                cnodes = {_node_containing(g, c).id for c in clears}
                # forward from wait: every path must hit clear before anything but simple flag stores
                bad = None
                todo, seen = [s for (s, l) in wn.succ if l != 'exc'], set()
                while todo and bad is None:
                    x = todo.pop()
                    if x.id in seen or x.id in cnodes:
                        continue
                    seen.add(x.id)
                    simple = x.kind == 'stmt' and isinstance(x.ast, ast.Assign) and all(is_self_attr(t) for t in x.ast.targets) \
                        and isinstance(x.ast.value, (ast.Constant, ast.Name))
                    if not simple:
                        bad = x
                        break
                    todo.extend(s for (s, l) in x.succ if l != 'exc')
                ok = bad is None
                ctx.ob('R4.4', f'{ci.name}.{fn.name}:{fld}', ok, sample=f'{ci.name}.{fn.name}: {fld}.wait() immediately followed by {fld}.clear(): {ok}')
                if not ok:
                    ctx.finding('R4.4', f'{ci.name}.{fn.name}:{fld}:wait-clear', ci, w,
                                f'`{short(bad.ast, 60) if bad.ast is not None else bad.kind}` runs between {fld}.wait() and {fld}.clear(): a set() issued while the '
                                f'thread works (e.g. start() during STOPPING) is erased by the later clear() and the wake-up is lost',
                                where=f'{ci.name}.{fn.name}')
    ctx.floor('R4.4', 'wait/clear loops', n, 1)


# --------------------------------------------------------------------------- R4.5
def r45_clobber(ctx, sc: SimCtx):
    prog = ctx.prog
    ctx.rule('R4.5', 'no command admitted while the worker is active writes the run state without synchronisation (it could overwrite the worker\'s STOPPED/ENDED)')
    active_cmds = []
    for cmd in COMMANDS:
        env = {'self._run_state': 'STARTED', 'self._replication_state': 'STARTED', ('isnone', 'self._replication'): False,
               ('ord', sc.clock_t, sc.end_t): 'lt', ('bool', 'isinstance(model, ModelInterface)'): True,
               ('bool', "hasattr(model, '_simulator')"): True, ('bool', 'isinstance(replication, ReplicationInterface)'): True}
        out, _a = admission_outcomes(sc, cmd, env)
        if 'admitted' in out:
            active_cmds.append(cmd)
    n = 0
    for cmd in active_cmds:
        # transitive writers of _run_state reachable from cmd through self-calls
        seen = set()

        def visit(cls, fn, chain):
            nonlocal n
            key = (cls, fn.name)
            if key in seen:
                return
            seen.add(key)
            for st in walk_shallow(fn):
                if isinstance(st, ast.Assign) and any(is_self_attr(t, '_run_state') for t in st.targets):
                    n += 1
                    locked = any(isinstance(w, ast.With) and any(x is st for x in ast.walk(w)) and 'lock' in unparse(w.items[0].context_expr).lower()
                                 for w in walk_shallow(fn))
                    ctx.ob('R4.5', f'{cls}.{fn.name}:_run_state', locked,
                           sample=f'{cmd} (admitted while the worker runs) -> {cls}.{fn.name}: {short(st)}; under a lock: {locked}')
                    if not locked:
                        ci = prog.cls(cls)
                        ctx.finding('R4.5', f'{cls}.{fn.name}:_run_state', ci, st,
                                    f'`{short(st)}` is executed by {cmd}(), which is admitted while the worker thread is active, without any lock shared '
                                    f'with the worker\'s own writes of STOPPED/ENDED: the write can overwrite a terminal state (ENDED -> STOPPING for ever)',
                                    where=f'{cls}.{fn.name}')
                elif isinstance(st, ast.Call):
                    sck = self_call_kind(st, prog)
                    if sck and sck[0] == 'self' and sck[1] not in FIRES:
                        d2, f2 = prog.resolve(SIM, sck[1])
                        if f2 is not None:
                            visit(d2.name, f2, chain + [sck[1]])
        dc, fn = prog.resolve(SIM, cmd)
        if cmd in ('end_replication', 'cleanup'):
            continue                # not state-machine commands of the run state (documented as callable from handlers)
        visit(dc.name, fn, [cmd])
    ctx.ob('R4.5', 'commands admitted while worker active', True, sample=f'commands admitted in state STARTED: {active_cmds}')


# --------------------------------------------------------------------------- R4.6
def r46_optional_worker(ctx, sc: SimCtx):
    prog = ctx.prog
    ctx.rule('R4.6', 'the optional worker thread is dereferenced only where it is known to exist (not-None test, assignment, or a guard implying an initialised simulator)')
    wf = None
    init = prog.method(BASE, '__init__', inherited=False)
    for n in walk_shallow(init):
        if isinstance(n, (ast.Assign, ast.AnnAssign)):
            tg = n.targets if isinstance(n, ast.Assign) else [n.target]
            if any(is_self_attr(t) and 'worker' in t.attr for t in tg) and isinstance(n.value, ast.Constant) and n.value.value is None:
                wf = [t.attr for t in tg if is_self_attr(t)][0]
    if wf is None:
        raise AnalysisError('anchor vanished: Simulator.__init__ does not set a worker field to None')
    ci = prog.cls(BASE)
    wtxt = f'self.{wf}'

    def evidence(fn, node_ast, g=None, depth=0):
        g = g or CFG(fn)
        node = _node_containing(g, node_ast) if not isinstance(node_ast, ast.stmt) else g.node_for(node_ast)
        # (a) not-None test
        for (c, br) in g.guard_branches(node):
            ge = GuardEval(prog, BASE, {('isnone', wtxt): True, 'self._run_state': 'NOT_INITIALIZED'}, sc.enums)
            r = ge.ev(c.ast)
            if r is not None and r != br:
                return f'guard `{short(c.ast, 50)}`'
        # (d) dominated by an assignment of a fresh worker, with no reset in between
        for st in walk_shallow(fn):
            if isinstance(st, ast.Assign) and any(is_self_attr(t, wf) for t in st.targets) and isinstance(st.value, ast.Call):
                an = g.node_for(st)
                if g.dominates(an, node) and an is not node:
                    resets = [x for x in g.stmt_nodes() if x.ast is not None and any(
                        (isinstance(y, ast.Assign) and any(is_self_attr(t, wf) for t in y.targets) and isinstance(y.value, ast.Constant))
                        or (isinstance(y, ast.Call) and isinstance(y.func, ast.Attribute) and is_self_attr(y.func) and y.func.attr == 'cleanup')
                        for y in walk_shallow(x.ast))]
                    if not any(g.reaches(an, r) and g.reaches(r, node) for r in resets):
                        return f'assigned at line {st.lineno}'
        # (c) private helper: every call site provides the evidence
        if fn.name.startswith('_') and depth < 2:
            sites = []
            for c2 in (BASE, SIM):
                for f2 in prog.cls(c2).methods.values():
                    for call in walk_shallow(f2):
                        if isinstance(call, ast.Call) and isinstance(call.func, ast.Attribute) and is_self_attr(call.func) and call.func.attr == fn.name:
                            sites.append((f2, call))
            if sites:
                evs = [evidence(f2, call, None, depth + 1) for (f2, call) in sites]
                if all(evs):
                    return 'every caller: ' + '; '.join(f'{f2.name}: {e}' for (f2, _c), e in zip(sites, evs))
        return None
    n = 0
    for fn in ci.methods.values():
        for d in walk_shallow(fn):
            if isinstance(d, ast.Attribute) and is_self_attr(d.value, wf) and isinstance(d.ctx, ast.Load):
                n += 1
                ev = evidence(fn, d)
                ok = ev is not None
                ctx.ob('R4.6', f'{BASE}.{fn.name}:{d.attr}', ok, sample=f'{BASE}.{fn.name}: {wtxt}.{d.attr} -- {ev or "NO EVIDENCE that the worker exists"}')
                if not ok:
                    ctx.finding('R4.6', f'{BASE}.{fn.name}:{wf}.{d.attr}', ci, d,
                                f'{wtxt}.{d.attr} is used although the worker is None before initialize() and after cleanup(): AttributeError '
                                f'instead of a DSOLError (and effects before it are not undone)', where=f'{BASE}.{fn.name}')
    ctx.floor('R4.6', 'worker dereferences', n, 6)


# --------------------------------------------------------------------------- R4.7
def r47_termination(ctx, sc: SimCtx):
    prog = ctx.prog
    ctx.rule('R4.7', 'the run thread terminates: END_REPLICATION paths set _finalized, cleanup() finalises and wakes the worker, the loop tests _finalized')
    wci = prog.cls('SimulatorWorkerThread')
    run = prog.method('SimulatorWorkerThread', 'run', inherited=False)
    loops = [s for s in body_of(run) if isinstance(s, ast.While)]
    ok = len(loops) == 1 and '_finalized' in unparse(loops[0].test)
    ctx.ob('R4.7', 'worker.run:loop-condition', ok, sample=f'worker loop: while {short(loops[0].test) if loops else "?"}')
    if not ok:
        ctx.finding('R4.7', 'SimulatorWorkerThread.run:loop-condition', wci, run, 'the worker loop does not test _finalized: the thread can never terminate',
                    where='SimulatorWorkerThread.run')
    g = CFG(run)
    fins = [g.node_for(w) for w in walk_shallow(run) if isinstance(w, ast.Assign) and any(is_self_attr(t, '_finalized') for t in w.targets)
            and isinstance(w.value, ast.Constant) and w.value.value is True]
    for c in _fires_of(run, 'END_REPLICATION_EVENT'):
        node = _node_containing(g, c)
        heads = [h for h in g.nodes if h.kind == 'cond' and isinstance(h.stmt, ast.While)]
        ok = bool(fins) and (any(g.dominates(f, node) for f in fins) or not any(g.reaches(node, h, avoid=fins, labels_excluded=('exc',)) for h in heads))
        ctx.ob('R4.7', 'worker.run:END->finalized', ok, sample=f'END_REPLICATION_EVENT path sets _finalized before the loop iterates: {ok}')
        if not ok:
            ctx.finding('R4.7', 'SimulatorWorkerThread.run:END-without-finalize', wci, c,
                        'after firing END_REPLICATION_EVENT the worker can iterate again without _finalized = True: the thread of an ended replication never exits',
                        where='SimulatorWorkerThread.run')
    wc = prog.method('SimulatorWorkerThread', 'cleanup', inherited=False)
    sets = any(isinstance(w, ast.Assign) and any(is_self_attr(t, '_finalized') for t in w.targets) and const_value(w.value) is True for w in walk_shallow(wc))
    wakes = any(isinstance(c, ast.Call) and isinstance(c.func, ast.Attribute) and ((is_self_attr(c.func) and c.func.attr == 'wakeup') or c.func.attr == 'set')
                for c in walk_shallow(wc))
    wk = prog.method('SimulatorWorkerThread', 'wakeup', inherited=False)
    wk_sets = any(isinstance(c, ast.Call) and isinstance(c.func, ast.Attribute) and c.func.attr == 'set' for c in walk_shallow(wk))
    ok = sets and wakes and wk_sets
    ctx.ob('R4.7', 'worker.cleanup', ok, sample=f'worker.cleanup(): _finalized := True {sets}; wakes the thread {wakes and wk_sets}')
    if not ok:
        ctx.finding('R4.7', 'SimulatorWorkerThread.cleanup', wci, wc, 'worker.cleanup() must set _finalized and wake the thread, else the thread blocks in wait() for ever',
                    where='SimulatorWorkerThread.cleanup')
    sc_fn = prog.method(BASE, 'cleanup', inherited=False)
    calls = any(isinstance(c, ast.Call) and isinstance(c.func, ast.Attribute) and c.func.attr == 'cleanup' and not is_self_attr(c.func) and 'worker' in unparse(c.func.value)
                for c in walk_shallow(sc_fn))
    ctx.ob('R4.7', 'Simulator.cleanup', calls, sample=f'Simulator.cleanup() finalises the worker: {calls}')
    if not calls:
        ctx.finding('R4.7', 'Simulator.cleanup:worker', prog.cls(BASE), sc_fn, 'Simulator.cleanup() does not call worker.cleanup(): the run thread is leaked',
                    where='Simulator.cleanup')


# ===========================================================================================================
# Part C: fault containment (R5.x) and replication isolation (R6.x)
# ===========================================================================================================
def _execute_try(sc: SimCtx, fn):
    """the Try statement inside fn whose body executes a popped event -> (Try, handler) list"""
    out = []
    for t in walk_shallow(fn):
        if isinstance(t, ast.Try) and any(isinstance(c, ast.Call) and isinstance(c.func, ast.Attribute) and c.func.attr == 'execute'
                                          for s in t.body for c in walk_shallow(s)):
            out.append(t)
    return out


def strategy_expr(sc: SimCtx, fn, h):
    """the expression the failure handler compares with ErrorStrategy members, handler-local aliases resolved:
    (canonical text, {local name: value}) -- e.g. `self._error_strategy`, or `self._error_policy.strategy`"""
    hal = {}
    cnt = {}
    for a in walk_shallow(h):
        if isinstance(a, (ast.Assign, ast.AnnAssign)) and getattr(a, 'value', None) is not None:
            for t in (a.targets if isinstance(a, ast.Assign) else [a.target]):
                if isinstance(t, ast.Name):
                    cnt[t.id] = cnt.get(t.id, 0) + 1
                    hal[t.id] = a.value
    hal = {k: v for k, v in hal.items() if cnt[k] == 1}
    texts = {}
    for c in walk_shallow(h):
        if isinstance(c, ast.Compare) and len(c.comparators) == 1:
            sides = [c.left, c.comparators[0]]
            if any(unparse(x).startswith('ErrorStrategy.') for x in sides):
                for x in sides:
                    if not unparse(x).startswith('ErrorStrategy.'):
                        t = ctext(sc.prog, SIM, x, hal)
                        texts[t] = texts.get(t, 0) + 1
    if not texts:
        return None, hal
    return max(texts, key=texts.get), hal


def make_hook_test(prog, owner_cls, h):
    """-> predicate on statements of the except-handler h: a notification of a NEW event type whose payload provably fits its metadata"""
    from .normalize import load_baseline
    _known = set(load_baseline().get('__attrs__', []))

    class _DC:
        name = owner_cls
    dc = _DC

    def well_typed_hook(st):
        """`self.fire_timed(t, <Cls>.<NEW_EVENT>, {'k': v, ..})` / `self.fire(<NEW_EVENT>, {..})`: the event type is new (an observer hook added to
        the package), it declares metadata, and the payload display has exactly the declared keys with values of the declared types (the
        caught exception `e` of `except T as e` has type T) -- so creating the event cannot fail"""
        if not (isinstance(st, ast.Expr) and isinstance(st.value, ast.Call) and isinstance(st.value.func, ast.Attribute) and is_self_attr(st.value.func)
                and st.value.func.attr in ('fire', 'fire_timed') and not st.value.keywords):
            return False
        a = st.value.args
        if st.value.func.attr == 'fire_timed':
            if len(a) != 3 or not (is_self_attr(a[0]) or unparse(a[0]).startswith('self.')):
                return False
            evt, payload = a[1], a[2]
        else:
            if len(a) != 2:
                return False
            evt, payload = a
        if not (isinstance(evt, ast.Attribute) and evt.attr not in _known and isinstance(payload, ast.Dict)):
            return False
        owner = unparse(evt.value)
        decl = None
        for k in (prog.mro(owner) if owner in prog.classes else prog.mro(dc.name)):
            kc = prog.classes.get(k)
            if kc is not None and evt.attr in kc.assigns:
                decl = kc.assigns[evt.attr]
                break
        if not (isinstance(decl, ast.Call) and unparse(decl.func) == 'EventType' and len(decl.args) == 2 and isinstance(decl.args[1], ast.Dict)):
            return False
        meta = {const_value(k): v for k, v in zip(decl.args[1].keys, decl.args[1].values)}
        keys = [const_value(k) for k in payload.keys]
        if set(keys) != set(meta) or len(keys) != len(meta):
            return False

        def subtype(t, d):
            if t == d or d in ('BaseException', 'object'):
                return True
            if d == 'Exception':
                return t == 'Exception' or t.endswith('Error') or t in prog.classes
            if t in prog.classes:
                return d in prog.mro(t)
            return False
        for k, v in zip(keys, payload.values):
            d = unparse(meta[k])
            if isinstance(v, ast.Name) and h.name and v.id == h.name and h.type is not None and not isinstance(h.type, ast.Tuple):
                if not subtype(unparse(h.type), d):
                    return False
            elif isinstance(v, ast.Constant) and type(v.value).__name__ == d:
                continue
            else:
                return False
        return True
    return well_typed_hook


def r51_strategy_table(ctx, sc: SimCtx):
    prog = ctx.prog
    ctx.rule('R5.1', 'effect of the except-branch around event.execute() in _run, per ErrorStrategy: continue-strategies touch nothing, pause sets exactly run_state := STOPPING; the loop head re-reads the state')
    dc, fn, loop = find_run_loop(sc)
    tries = [t for t in _execute_try(sc, fn) if any(x is t for x in ast.walk(loop))]
    if len(tries) != 1:
        ctx.ob('R5.1', '_run:try', False)
        ctx.finding('R5.1', 'DEVSSimulator._run:no-try', dc, fn,
                    'event.execute() in the run loop is not wrapped in exactly one try/except: a failing handler escapes the loop and the remaining events are never run',
                    where='DEVSSimulator._run')
        return
    tr = tries[0]
    catch_ok = any(h.type is None or unparse(h.type) in ('Exception', 'BaseException') for h in tr.handlers)
    ctx.ob('R5.1', '_run:catches-Exception', catch_ok, sample=f'_run: except {[unparse(h.type) if h.type else "bare" for h in tr.handlers]}')
    if not catch_ok:
        ctx.finding('R5.1', 'DEVSSimulator._run:handler-type', dc, tr, 'the handler around event.execute() does not catch Exception', where='DEVSSimulator._run')
    h = [x for x in tr.handlers if x.type is None or unparse(x.type) in ('Exception', 'BaseException')]
    h = h[0] if h else tr.handlers[0]
    strategies = {k: v for k, v in sc.enums['ErrorStrategy'].items() if isinstance(v, int)}
    ctx.floor('R5.1', 'error strategies', len(strategies), 5)
    # the strategy the handler consults must be read when the failure is handled (it may be changed during the run, also by handlers)
    stale = []
    for c in walk_shallow(h):
        if isinstance(c, ast.Compare) and len(c.comparators) == 1:
            sides = [c.left, c.comparators[0]]
            if any(unparse(x).startswith('ErrorStrategy.') for x in sides):
                for x in sides:
                    if isinstance(x, ast.Name):
                        defs_in = [a for a in walk_shallow(h) if isinstance(a, (ast.Assign, ast.AnnAssign)) and
                                   any(isinstance(t, ast.Name) and t.id == x.id for t in (a.targets if isinstance(a, ast.Assign) else [a.target]))]
                        if not defs_in:
                            stale.append((c, x.id))
    ctx.ob('R5.1', '_run:strategy-read-in-handler', not stale, sample=f'_run: strategy comparisons in the handler read the field at failure time: {not stale}')
    for (c, nm) in stale[:1]:
        ctx.finding('R5.1', 'DEVSSimulator._run:stale-strategy', dc, c,
                    f'the handler decides on the local `{nm}`, assigned before the failure (outside the handler): a strategy set while the run is active '
                    '(documented as allowed, e.g. from a handler) is ignored, so a pause strategy does not pause / a continue strategy does not continue',
                    where='DEVSSimulator._run')
    S_text, S_sub = strategy_expr(sc, fn, h)
    if S_text is None:
        raise AnalysisError('anchor vanished: the failure handler in _run compares nothing with ErrorStrategy members')
    ctx.sample(f'R5.1: the handler consults `{S_text}`')
    eff = Effects(prog)
    table = {}
    well_typed_hook = make_hook_test(prog, dc.name, h)
    for name, val in strategies.items():
        ge = GuardEval(prog, dc.name, {S_text: val}, sc.enums, subst=S_sub)
        effects = []

        def run(stmts):
            for s in stmts:
                if isinstance(s, ast.If):
                    v = ge.ev(s.test)
                    if v is True:
                        run(s.body)
                    elif v is False:
                        run(s.orelse)
                    else:
                        effects.append(('unknown', short(s.test, 50)))
                        run(s.body)
                        run(s.orelse)
                elif isinstance(s, (ast.Return, ast.Break, ast.Raise)):
                    effects.append(('control', type(s).__name__.lower()))
                elif isinstance(s, (ast.For, ast.While, ast.Try, ast.With)):
                    for x in ast.iter_child_nodes(s):
                        if isinstance(x, ast.stmt):
                            run([x])
                elif well_typed_hook(s):
                    ctx.sample(f'R5.1: `{short(s, 70)}` is a notification of a new event type whose payload provably satisfies the declared metadata: it cannot '
                               f'raise and, without subscribers, has no effect')
                else:
                    for (k, t, n) in eff.of(s):
                        effects.append((k, t))
                    for c in walk_shallow(s):
                        if isinstance(c, ast.Call):
                            f = unparse(c.func)
                            if f in ('sys.exit', 'exit', 'quit', 'os._exit'):
                                effects.append(('exit', f))
                            elif isinstance(c.func, ast.Attribute) and is_self_attr(c.func) and c.func.attr not in FIRES \
                                    and c.func.attr in eff.mutating_method_names():
                                effects.append(('selfcall', c.func.attr))
                            elif not (f in ('print', 'str', 'repr', 'format', 'type', 'len', 'isinstance') or f.startswith(('logger.', 'logging.', 'traceback.'))):
                                # anything else can fail inside the handler and escape the run loop as an unrelated error
                                effects.append(('may-raise', f + '()'))
                        elif isinstance(c, ast.Attribute) and isinstance(c.ctx, ast.Load) and isinstance(c.value, ast.Name) \
                                and c.value.id not in ('self', 'logger', 'traceback', 'sys', 'logging', 'ErrorStrategy', 'RunState', 'ReplicationState') \
                                and c.value.id != (h.name or '') and not isinstance(getattr(c, '_parent_call', None), ast.Call):
                            callee_of = any(isinstance(k, ast.Call) and k.func is c for k in walk_shallow(s))
                            if not callee_of:
                                effects.append(('may-raise', f'attribute of local {c.value.id}'))
        run(h.body)
        table[name] = effects
        ctx.examined()
    spec_continue = [n for n in strategies if n.endswith('_CONTINUE')]
    spec_pause = [n for n in strategies if n.endswith('_PAUSE')]
    for name in spec_continue:
        ok = not table[name]
        ctx.ob('R5.1', f'strategy:{name}', ok, sample=f'{name}: handler effects {table[name]}')
        if not ok:
            ctx.finding('R5.1', f'DEVSSimulator._run:{name}', dc, h,
                        f'under {name} the handler around event.execute() has effects {table[name]}: the run does not simply continue with the next event '
                        f'(events are lost, reordered or the run stops' + (', or the handler itself can raise and escape the loop' if any(e[0] == 'may-raise' for e in table[name]) else '') + ')',
                        where='DEVSSimulator._run')
    for name in spec_pause:
        writes = [e for e in table[name] if e[0] == 'write']
        others = [e for e in table[name] if e[0] not in ('write',) and e != ('control', 'break')]
        ok = writes == [('write', 'self._run_state')] and not others
        mayraise = [e for e in table[name] if e[0] == 'may-raise']
        # value written
        stop_writes = [n for n in walk_shallow(h) if isinstance(n, ast.Assign) and any(is_self_attr(t, '_run_state') for t in n.targets)]
        ok = ok and all(unparse(w.value) == 'RunState.STOPPING' for w in stop_writes)
        ctx.ob('R5.1', f'strategy:{name}', ok, sample=f'{name}: handler effects {table[name]}')
        if not ok:
            ctx.finding('R5.1', f'DEVSSimulator._run:{name}', dc, h,
                        f'under {name} the handler must do exactly `run_state := STOPPING` (remaining events stay queued, nothing later runs); it does {table[name]}'
                        + (' -- and it calls / dereferences something that can fail inside the handler, so the failure escapes the run loop as an unrelated error' if mayraise else ''),
                        where='DEVSSimulator._run')
    for name in strategies:
        if name not in spec_continue and name not in spec_pause:
            ctx.sample(f'R5.1: {name}: handler effects {table[name]} (not constrained by the property)')
    # ... on every path: from the handler (which may request the pause) no pop_first() is reachable without passing a test of the
    # run state -- an inner loop over simultaneous events that only tests the time would run events after the failing one
    g5 = CFG(fn)
    hnodes = [n for n in g5.nodes if n.kind == 'handler' and getattr(n, 'ast', None) is h] or [n for n in g5.nodes if n.kind == 'handler']
    pops5 = [n for n in g5.nodes if n.ast is not None and n.kind in ('stmt', 'cond') and any(
        isinstance(c, ast.Call) and isinstance(c.func, ast.Attribute) and c.func.attr == 'pop_first' for c in walk_shallow(n.ast)
        if not isinstance(n.ast, (ast.While, ast.For, ast.If)) or c in list(ast.walk(n.ast.test if hasattr(n.ast, 'test') else n.ast.iter)))]
    tests5 = [n for n in g5.nodes if n.kind == 'cond' and n.ast is not None and '_run_state' in sc.c(n.ast, dc.name)]
    # ... and from the normal completion of the event (its handler may have called stop()): the same test must lie before the next pop
    exnodes = [n for n in g5.nodes if n.kind == 'stmt' and n.ast is not None and any(
        isinstance(c, ast.Call) and isinstance(c.func, ast.Attribute) and c.func.attr == 'execute' for c in walk_shallow(n.ast))]
    unguarded = [p5 for p5 in pops5 for hn in hnodes + exnodes if any(s5 is p5 or g5.reaches(s5, p5, avoid=tests5) for (s5, _l) in hn.succ if s5 not in tests5)]
    ok = bool(hnodes) and bool(pops5) and not unguarded
    ctx.ob('R5.1', '_run:state-test-before-next-pop', ok, sample=f'_run: every path from the failure handler to the next pop_first() tests the run state: {ok} '
           f'({len(hnodes)} handler entr{"y" if len(hnodes) == 1 else "ies"}, {len(pops5)} pop site(s), {len(tests5)} state test(s))')
    if not ok:
        node5 = unguarded[0].ast if unguarded else loop.test
        ctx.finding('R5.1', 'DEVSSimulator._run:pop-without-state-test', dc, node5,
                    'after an event (failing or not) the next pop_first() can be reached without a test of the run state: under WARN_AND_PAUSE events later than the '
                    'failing one (e.g. other events of the same time stamp) still run before the simulator stops', where='DEVSSimulator._run')
    # nothing but the try follows the execute in the loop body that could skip events: statements after the try in the loop
    # SimEvent.execute wraps every handler exception
    se = prog.method('SimEvent', 'execute', inherited=False)
    tr2 = [t for t in walk_shallow(se) if isinstance(t, ast.Try)]
    ok = len(tr2) == 1 and any(hh.type is None or unparse(hh.type) in ('Exception', 'BaseException') for hh in tr2[0].handlers)
    # consistency: whatever SimEvent.execute lets through must be caught by the handler in _run; a wrapper that converts only
    # `Exception` lets BaseException subclasses (SystemExit raised by a handler, a model's own abort class) escape the run loop
    wraps_all = len(tr2) == 1 and any(hh.type is None or unparse(hh.type) == 'BaseException' for hh in tr2[0].handlers)
    run_all = any(hh.type is None or unparse(hh.type) == 'BaseException' for hh in tr.handlers)
    cons = wraps_all or run_all
    ctx.ob('R5.1', 'execute/_run:exception-classes', cons,
           sample=f'SimEvent.execute converts every exception class: {wraps_all}; _run handler catches BaseException: {run_all}')
    if not cons:
        ctx.finding('R5.1', 'SimEvent.execute:exception-classes', prog.cls('SimEvent'), tr2[0] if tr2 else se,
                    'SimEvent.execute converts only `Exception` subclasses while the handler in _run catches only `Exception`: a handler failing with a '
                    'BaseException subclass (sys.exit() inside a handler, a model-defined abort) escapes the run loop; the worker dies in state STARTED and the remaining events never run',
                    where='SimEvent.execute')
    ctx.ob('R5.1', 'SimEvent.execute:wraps', ok, sample=f'SimEvent.execute: try/except {[unparse(hh.type) if hh.type else "bare" for t in tr2 for hh in t.handlers]}')
    if not ok:
        ctx.finding('R5.1', 'SimEvent.execute:wraps', prog.cls('SimEvent'), se, 'SimEvent.execute does not wrap the handler call in try/except Exception', where='SimEvent.execute')
    ctx.exhaustive['R5.1 ErrorStrategy values'] = True


def r52_handler_cannot_raise(ctx, sc: SimCtx):
    prog = ctx.prog
    ctx.rule('R5.2', 'no except-handler concatenates a string with the caught exception object (TypeError on every execution)')
    n = 0
    for oc, fn, mod in prog.functions():
        for t in walk_shallow(fn):
            if not isinstance(t, ast.Try):
                continue
            for h in t.handlers:
                if h.name is None:
                    continue
                n += 1
                bad = []
                for b in ast.walk(h):
                    if isinstance(b, ast.BinOp) and isinstance(b.op, ast.Add):
                        for (x, y) in ((b.left, b.right), (b.right, b.left)):
                            is_str = (isinstance(x, ast.Constant) and isinstance(x.value, str)) or isinstance(x, ast.JoinedStr) \
                                or (isinstance(x, ast.BinOp) and isinstance(x.op, ast.Add) and any(isinstance(z, ast.Constant) and isinstance(z.value, str) for z in ast.walk(x)))
                            if is_str and isinstance(y, ast.Name) and y.id == h.name:
                                bad.append(b)
                where_ = f'{oc.name}.{fn.name}' if oc else fn.name
                ok = not bad
                ctx.ob('R5.2', f'{where_}:except-{h.name}', ok, sample=f'{where_}: except … as {h.name}: string+exception concatenations {len(bad)}')
                for b in bad[:1]:
                    ctx.finding('R5.2', f'{where_}:str+{h.name}', oc, b,
                                f'`{short(b)}` adds a str and the exception object {h.name}: TypeError is raised inside the handler and escapes as an unrelated error',
                                where=where_, module=mod)
    ctx.floor('R5.2', 'named except handlers', n, 3)


def r53_step_finally(ctx, sc: SimCtx):
    prog = ctx.prog
    ctx.rule('R5.3', 'step(): on every path after START (normal or exceptional) STOP_EVENT is fired and run_state := STOPPED; its handler calls nothing that can fail')
    dc, fn = prog.resolve(SIM, 'step')
    g = CFG(fn)
    starts = _fires_of(fn, 'START_EVENT')
    if not starts:
        raise AnalysisError('anchor vanished: step() fires no START_EVENT')
    sn = _node_containing(g, starts[0])
    stopped = [n for w in _writes_of(fn, '_run_state', 'RunState.STOPPED') for n in _nodes_containing(g, w)]
    bad = g.reaches(sn, g.exit, avoid=stopped) or g.reaches(sn, g.rexit, avoid=stopped)
    # also: the state write STARTED must be covered
    started = [n for w in _writes_of(fn, '_run_state', 'RunState.STARTED') for n in _nodes_containing(g, w)]
    for s in started:
        bad = bad or g.reaches(s, g.exit, avoid=stopped) or g.reaches(s, g.rexit, avoid=stopped)
    ok = not bad and bool(stopped)
    ctx.ob('R5.3', 'Simulator.step:STOPPED', ok, sample=f'step(): run_state := STOPPED on every path after START (incl. exceptional): {ok}')
    if not ok:
        ctx.finding('R5.3', 'Simulator.step:STOPPED', dc, fn, 'step() can leave the simulator in state STARTED when the step fails', where='Simulator.step')
    # handler contents: only print / logging / str / traceback calls
    allowed = ('print', 'str', 'repr', 'format')
    for t in walk_shallow(fn):
        if isinstance(t, ast.Try):
            for h in t.handlers:
                risky = []
                hook = make_hook_test(prog, dc.name, h)
                hooked = {id(c) for st_ in h.body if hook(st_) for c in ast.walk(st_)}
                for c in ast.walk(h):
                    if id(c) in hooked:
                        continue                 # a well-typed notification of a new event type: cannot fail, no effect without subscribers
                    if isinstance(c, ast.Call):
                        f = unparse(c.func)
                        if not (f in allowed or f.startswith('logger.') or f.startswith('traceback.') or f.startswith('logging.')):
                            risky.append(f)
                    if isinstance(c, ast.Raise):
                        risky.append('raise')
                ok = not risky
                ctx.ob('R5.3', 'Simulator.step:handler', ok, sample=f'step() handler calls only reporting functions: {ok} {risky}')
                if not ok:
                    ctx.finding('R5.3', 'Simulator.step:handler', dc, h, f'the except-handler of step() performs {risky}, which can fail or re-raise', where='Simulator.step')


# --------------------------------------------------------------------------- R6.x
def r61_initialize_order(ctx, sc: SimCtx):
    prog = ctx.prog
    ctx.rule('R6.1', 'initialize: running-guard -> eventlist.clear() -> clock := start -> construct_model() exactly once -> one warm-up at MAX_PRIORITY, ordered by dominance')
    NORMAL = ('exc', 'raise', 'reraise')
    dci, dfn = prog.resolve(SIM, 'initialize')
    bci, bfn = prog.resolve(SIM, 'initialize', after=dci.name)
    if bfn is None:
        raise AnalysisError('anchor vanished: Simulator.initialize')
    gd, gb = CFG(dfn), CFG(bfn)
    sup = [c for c in walk_shallow(dfn) if isinstance(c, ast.Call) and isinstance(c.func, ast.Attribute) and is_super_call(c.func.value) and c.func.attr == 'initialize']
    clears = [c for c in walk_shallow(dfn) if isinstance(c, ast.Call) and isinstance(c.func, ast.Attribute) and c.func.attr == 'clear' and sc.is_evl(c.func.value, dci.name)]
    ok = len(sup) == 1 and len(clears) >= 1 and gd.dominates(_node_containing(gd, clears[0]), _node_containing(gd, sup[0]))
    ctx.ob('R6.1', 'clear-before-construct', ok, sample=f'DEVSSimulator.initialize: eventlist.clear() dominates super().initialize(): {ok}')
    if not ok:
        ctx.finding('R6.1', 'DEVSSimulator.initialize:clear-order', dci, clears[0] if clears else dfn,
                    'the event list is not cleared before the base initialisation constructs the model: events of the previous replication survive, '
                    'or the first events of the new model are discarded', where='DEVSSimulator.initialize')
    # running guard dominates clear
    if clears:
        cn = _node_containing(gd, clears[0])
        for rs_ in ('STARTED', 'STARTING'):
            # STARTING: start() was accepted and the worker is being woken -- the run has begun (is_starting_or_running is documented True)
            ge = GuardEval(prog, SIM, {'self._run_state': rs_}, sc.enums)
            blocked = any((ge.ev(c.ast) is not None and ge.ev(c.ast) != br) for (c, br) in gd.guard_branches(cn))
            ctx.ob('R6.1', 'running-guard-before-clear' + ('' if rs_ == 'STARTED' else ':' + rs_), blocked,
                   sample=f'eventlist.clear() unreachable in run state {rs_}: {blocked}')
            if not blocked:
                ctx.finding('R6.1', 'DEVSSimulator.initialize:running-guard' + ('' if rs_ == 'STARTED' else ':' + rs_), dci, clears[0],
                            'the event list can be cleared while the simulator is running' + ('' if rs_ == 'STARTED' else
                            ' (run state STARTING: a start command was accepted and its replication is discarded under it)'), where='DEVSSimulator.initialize')
    # base: clock reset dominates construct_model; construct_model on every normal path exactly once
    cm = [c for c in walk_shallow(bfn) if isinstance(c, ast.Call) and isinstance(c.func, ast.Attribute) and c.func.attr == 'construct_model']
    resets = [st for st in walk_shallow(bfn) if isinstance(st, ast.Assign) and any(is_self_attr(t, sc.clock) for t in st.targets)
              and unparse(st.value).endswith('start_sim_time')]
    in_loop = any(isinstance(l, (ast.For, ast.While)) and any(x is c for x in ast.walk(l)) for l in walk_shallow(bfn) for c in cm)
    ok = len(cm) == 1 and not in_loop and not gb.reaches(gb.entry, gb.exit, avoid=_nodes_containing(gb, cm[0]), labels_excluded=NORMAL)
    ctx.ob('R6.1', 'construct-once', ok, sample=f'Simulator.initialize: model.construct_model() exactly once on every normal path: {ok}')
    if not ok:
        ctx.finding('R6.1', 'Simulator.initialize:construct_model', bci, cm[0] if cm else bfn, 'construct_model() is not called exactly once on every path of initialize',
                    where='Simulator.initialize')
    ok = bool(resets) and bool(cm) and gb.dominates(gb.node_for(resets[0]), _node_containing(gb, cm[0]))
    ctx.ob('R6.1', 'clock-reset-before-construct', ok, sample=f'Simulator.initialize: clock := replication.start_sim_time dominates construct_model(): {ok}')
    if not ok:
        ctx.finding('R6.1', 'Simulator.initialize:clock-reset', bci, resets[0] if resets else bfn,
                    'the clock is not reset to the replication start before construct_model(): events scheduled by the model use the clock of the previous replication',
                    where='Simulator.initialize')
    # anything that drops subscriptions (cleanup -> remove_all_listeners) must happen before the model is rebuilt:
    # statistics created in construct_model() subscribe to the simulator
    if cm:
        cmn = _node_containing(gb, cm[0])
        rbe_tmp = RBE(prog)
        for x in walk_shallow(bfn):
            if isinstance(x, ast.Call):
                sck = self_call_kind(x, prog)
                if sck and sck[0] == 'self' and sck[1] not in FIRES:
                    d2, f2 = prog.resolve(SIM, sck[1])
                    if f2 is not None and '_listeners' in rbe_tmp.writes_of(SIM, d2.name, f2):
                        xn = _node_containing(gb, x)
                        late = gb.reaches(cmn, xn)
                        ctx.ob('R6.1', f'{sck[1]}-before-construct', not late, sample=f'Simulator.initialize: self.{sck[1]}() (drops listeners) cannot run after construct_model(): {not late}')
                        if late:
                            ctx.finding('R6.1', f'Simulator.initialize:{sck[1]}-after-construct_model', bci, x,
                                        f'self.{sck[1]}() removes the simulator\'s listeners and can run after construct_model(): statistics the model has just created '
                                        f'lose their WARMUP / END_REPLICATION subscriptions on a re-initialisation', where='Simulator.initialize')
    # states := INITIALIZED on every normal path
    for fld, val in (('_run_state', 'RunState.INITIALIZED'), ('_replication_state', 'ReplicationState.INITIALIZED')):
        ws = [n for w in _writes_of(bfn, fld, val) for n in _nodes_containing(gb, w)]
        ok = bool(ws) and not gb.reaches(gb.entry, gb.exit, avoid=ws, labels_excluded=NORMAL)
        ctx.ob('R6.1', f'{fld}:=INITIALIZED', ok)
        if not ok:
            ctx.finding('R6.1', f'Simulator.initialize:{fld}', bci, bfn, f'{fld} is not set to {val} on every path of initialize', where='Simulator.initialize')
    warmup_priority(ctx, sc, 'R6.1')
    warmup_schedule(ctx, sc, 'R6.1')


def warmup_priority(ctx, sc: SimCtx, rule):
    prog = ctx.prog
    dci, dfn = prog.resolve(SIM, 'initialize')
    # warm-up priority
    sched = [c for c in walk_shallow(dfn) if isinstance(c, ast.Call) and isinstance(c.func, ast.Attribute) and c.func.attr.startswith('schedule_event')
             and any(isinstance(a, ast.Constant) and a.value == 'warmup' for a in c.args)]
    pr = None
    if sched:
        for kw in sched[0].keywords:
            if kw.arg == 'priority':
                pr = kw.value
        if pr is None:
            d2, f2 = prog.resolve(SIM, sched[0].func.attr)
            names = [a.arg for a in f2.args.args[1:]]
            if 'priority' in names and names.index('priority') < len(sched[0].args):
                pr = sched[0].args[names.index('priority')]
    prv = None
    if isinstance(pr, ast.Attribute) and isinstance(pr.value, ast.Name):
        prv = prog.const(pr.value.id, pr.attr)
    normal = prog.const('SimEventInterface', 'NORMAL_PRIORITY')
    ok = prv is not NOCONST and prv is not None and normal is not NOCONST and isinstance(prv, int) and prv > normal
    ctx.ob(rule, 'warmup-priority', ok, sample=f'warm-up scheduled with priority {unparse(pr) if pr is not None else None} = {prv} > NORMAL_PRIORITY {normal}')
    if not ok:
        ctx.finding(rule, 'DEVSSimulator.initialize:warmup-priority', dci, sched[0] if sched else dfn,
                    'the warm-up event is not scheduled with a priority above NORMAL_PRIORITY: model events at the warm-up instant can run before the statistics are reset',
                    where='DEVSSimulator.initialize')


def r64_config_containers(ctx, sc: SimCtx):
    prog = ctx.prog
    ctx.rule('R6.4', 'containers that initialize only consumes (initial methods registered before the replication) are not emptied or rebound on the initialize / cleanup path')
    bci, bfn = prog.resolve(BASE, 'initialize')
    consumed = set()
    for loop in walk_shallow(bfn):
        if isinstance(loop, ast.For) and is_self_attr(loop.iter):
            consumed.add(loop.iter.attr)
    ctx.floor('R6.4', 'containers consumed by initialize', len(consumed), 1)
    # functions reachable from initialize through self-calls
    reach = {}
    todo = [(SIM, 'initialize')]
    while todo:
        cls, name = todo.pop()
        for (dc, fn) in [prog.resolve(cls, name)] + ([prog.resolve(cls, name, after=prog.resolve(cls, name)[0].name)] if prog.resolve(cls, name)[1] is not None else []):
            if fn is None or (dc.name, fn.name) in reach:
                continue
            reach[(dc.name, fn.name)] = (dc, fn)
            for x in walk_shallow(fn):
                if isinstance(x, ast.Call):
                    sck = self_call_kind(x, prog)
                    if sck and sck[1] not in FIRES:
                        todo.append((SIM, sck[1]))
    for F in sorted(consumed):
        bad = []
        for (dcn, fnn), (dc, fn) in reach.items():
            for x in walk_shallow(fn):
                if isinstance(x, ast.Call) and isinstance(x.func, ast.Attribute) and is_self_attr(x.func.value, F) \
                        and x.func.attr in ('clear', 'pop', 'remove', 'popitem', '__delitem__'):
                    bad.append((dc, fn, x))
                elif isinstance(x, (ast.Assign, ast.AugAssign, ast.Delete)) and fn.name != '__init__':
                    tg = x.targets if isinstance(x, (ast.Assign, ast.Delete)) else [x.target]
                    if any(is_self_attr(t, F) or (isinstance(t, ast.Subscript) and is_self_attr(t.value, F)) for t in tg):
                        bad.append((dc, fn, x))
        ok = not bad
        ctx.ob('R6.4', f'Simulator.{F}', ok, sample=f'{F} (consumed by initialize) is not mutated by {sorted(k[1] for k in reach)[:6]}…: {ok}')
        for (dc, fn, x) in bad:
            ctx.finding('R6.4', f'{dc.name}.{fn.name}:{F}', dc, x,
                        f'`{short(x)}` empties/rebinds {F} on the initialize path ({dc.name}.{fn.name} is reachable from initialize): what was registered before the first replication '
                        f'is lost, so a re-initialised replication starts without it and differs from the first', where=f'{dc.name}.{fn.name}')


def r62_registries(ctx, sc: SimCtx):
    prog = ctx.prog
    ctx.rule('R6.2', 'per-replication registries (insert-after-"already registered"-guard, filled from statistics constructors) are cleared by initialize before construct_model()')
    # registries: method with `if k in self.F: raise` and `self.F[k] = v`
    regs = []
    for ci in prog.classes.values():
        for fn in ci.methods.values():
            ins = [n for n in walk_shallow(fn) if isinstance(n, ast.Subscript) and isinstance(n.ctx, ast.Store) and is_self_attr(n.value)]
            for s in ins:
                F = s.value.attr
                guarded = any(isinstance(i, ast.If) and any(isinstance(x, ast.Raise) for x in i.body) and isinstance(i.test, ast.Compare)
                              and isinstance(i.test.ops[0], ast.In) and is_self_attr(i.test.comparators[0], F) for i in walk_shallow(fn))
                if guarded:
                    regs.append((ci, fn, F))
    # which of them are fed from constructors of simulation statistics
    stat_ctors = [(c, prog.classes[c].methods['__init__']) for c in prog.classes
                  if 'SimStatisticsInterface' in prog.mro(c) and '__init__' in prog.classes[c].methods]
    n = 0
    for (ci, fn, F) in regs:
        feeders = [c for (c, init) in stat_ctors if any(isinstance(x, ast.Call) and isinstance(x.func, ast.Attribute) and x.func.attr == fn.name
                                                       for x in walk_shallow(init))]
        if not feeders:
            continue
        n += 1
        # the clearing construct on the initialize path, before construct_model
        bci, bfn = prog.resolve(BASE, 'initialize')
        gb = CFG(bfn)
        cm = [c for c in walk_shallow(bfn) if isinstance(c, ast.Call) and isinstance(c.func, ast.Attribute) and c.func.attr == 'construct_model']
        getters = {m for m, f in ci.methods.items() if (lambda r: r is not None and is_self_attr(r, F))(prog.simple_return(ci.name, m))}
        clearers = {m for m, f in ci.methods.items() if any(
            (isinstance(x, ast.Call) and isinstance(x.func, ast.Attribute) and x.func.attr == 'clear' and is_self_attr(x.func.value, F))
            or (isinstance(x, ast.Assign) and any(is_self_attr(t, F) for t in x.targets) and isinstance(x.value, (ast.Dict, ast.Call)))
            for x in walk_shallow(f)) and m != '__init__'}
        found = None
        for c in walk_shallow(bfn):
            if isinstance(c, ast.Call) and isinstance(c.func, ast.Attribute):
                if c.func.attr == 'clear':
                    r = c.func.value
                    if (isinstance(r, ast.Call) and isinstance(r.func, ast.Attribute) and r.func.attr in getters) or (isinstance(r, ast.Attribute) and r.attr in getters | {F}):
                        found = c
                elif c.func.attr in clearers and not is_self_attr(c.func):
                    found = c
        ok = found is not None and bool(cm) and gb.dominates(_node_containing(gb, found), _node_containing(gb, cm[0]))
        ctx.ob('R6.2', f'{ci.name}.{F}', ok, sample=f'registry {ci.name}.{F} (filled by {fn.name} from {feeders}) cleared before construct_model(): {ok}')
        if not ok:
            ctx.finding('R6.2', f'{ci.name}.{F}:never-cleared', ci, fn,
                        f'{ci.name}.{F} is filled by {fn.name}(), which refuses duplicates, from the constructors of {feeders} -- which the documentation tells users '
                        f'to call in construct_model() -- but initialize never clears it: a second initialize of the same model raises "already registered"',
                        where=f'{ci.name}.{fn.name}')
    ctx.floor('R6.2', 'per-replication registries', n, 1)


def r63_reset_completeness(ctx, sc: SimCtx):
    prog = ctx.prog
    ctx.rule('R6.3', 'every simulator field written on the run path is re-assigned by initialize on all paths or by _start_impl before each run')
    run_fns = []
    for name in ('_run', '_step_impl', 'step', '_start_impl'):
        dc, fn = prog.resolve(SIM, name)
        if fn is not None:
            run_fns.append((dc, fn, 'self'))
    wr = prog.method('SimulatorWorkerThread', 'run', inherited=False)
    written = {}
    for (dc, fn, _r) in run_fns:
        for n in walk_shallow(fn):
            if is_self_attr(n) and isinstance(n.ctx, ast.Store):
                written.setdefault(n.attr, f'{dc.name}.{fn.name}')
    for n in walk_shallow(wr):
        if isinstance(n, ast.Attribute) and isinstance(n.ctx, ast.Store) and isinstance(n.value, ast.Attribute) and is_self_attr(n.value, '_job'):
            written.setdefault(n.attr, 'SimulatorWorkerThread.run')
    ctx.floor('R6.3', 'run-dirty fields', len(written), 4)
    NORMAL = ('exc', 'raise', 'reraise')
    dci, dfn = prog.resolve(SIM, 'initialize')
    bci, bfn = prog.resolve(SIM, 'initialize', after=dci.name)
    sci, sfn = prog.resolve(SIM, '_start_impl')
    for f, where_ in sorted(written.items()):
        ok = False
        how = ''
        for (ci, fn) in ((dci, dfn), (bci, bfn)):
            g = CFG(fn)
            ws = [g.node_for(st) for st in walk_shallow(fn) if isinstance(st, (ast.Assign, ast.AnnAssign)) and
                  any(is_self_attr(t, f) for t in (st.targets if isinstance(st, ast.Assign) else [st.target]))]
            if ws and not g.reaches(g.entry, g.exit, avoid=ws, labels_excluded=NORMAL):
                ok = True
                how = f'assigned on every path of {ci.name}.initialize'
        if not ok:
            ws = [st for st in walk_shallow(sfn) if isinstance(st, ast.Assign) and any(is_self_attr(t, f) for t in st.targets)]
            if ws:
                ok = True
                how = 'assigned by _start_impl for every run'
        ctx.ob('R6.3', f'field:{f}', ok, sample=f'{f} (written in {where_}): {how or "NOT reset"}')
        if not ok:
            ctx.finding('R6.3', f'Simulator.{f}:not-reset', bci, bfn,
                        f'field {f} is written during a run ({where_}) but neither initialize nor _start_impl re-assigns it: state of the previous replication leaks into the next',
                        where='Simulator.initialize')


def r116_end_after_clock(ctx, sc: SimCtx):
    """R11.6: END_REPLICATION is fired only after the clock was set to the replication end"""
    prog = ctx.prog
    ctx.rule('R11.6', 'END_REPLICATION_EVENT is only fired in state ENDING, and ENDING is only entered with the clock at (or moved to) the replication end')
    n = 0
    for ci, fn in sc.sim_functions():
        for st in walk_shallow(fn):
            if not (isinstance(st, ast.Assign) and unparse(st.value) == 'ReplicationState.ENDING'
                    and any(isinstance(t, ast.Attribute) and t.attr == '_replication_state' for t in st.targets)):
                continue
            n += 1
            g = CFG(fn)
            node = g.node_for(st)
            env = {('ord', sc.clock_t, sc.end_t): 'lt'}
            ge = GuardEval(prog, ci.name, env, sc.enums)
            guarded = any((ge.ev(c.ast) is not None and ge.ev(c.ast) != br) for (c, br) in g.guard_branches(node))
            moved = False
            if not guarded:
                # every normal path from the write (or to it) passes `if clock < end: clock := end`
                sets = []
                for w in walk_shallow(fn):
                    if isinstance(w, ast.Assign) and any(is_self_attr(t, sc.clock) for t in w.targets) and sc.c(w.value, ci.name) == sc.end_t:
                        sets.append(w)
                for w in sets:
                    wn = g.node_for(w)
                    for (c, br) in g.guard_branches(wn):
                        if sc.c(c.ast, ci.name) in (f'{sc.clock_t} < {sc.end_t}', f'{sc.end_t} > {sc.clock_t}') and br:
                            # the guard itself must be on every normal path
                            if not g.reaches(g.entry, g.exit, avoid=[c], labels_excluded=('exc', 'raise', 'reraise')):
                                moved = True
            ok = guarded or moved
            ctx.ob('R11.6', f'{ci.name}.{fn.name}:ENDING', ok, sample=f'{ci.name}.{fn.name}: ENDING entered with clock >= end ({"guard" if guarded else "clock moved to end" if moved else "NOT ESTABLISHED"})')
            if not ok:
                ctx.finding('R11.6', f'{ci.name}.{fn.name}:ENDING-clock', ci, st,
                            'the replication can enter ENDING (and then fire END_REPLICATION_EVENT) while the clock is before the replication end: '
                            'persistent statistics are closed at the wrong time', where=f'{ci.name}.{fn.name}')
    ctx.floor('R11.6', 'writes of ENDING', n, 2)
    wr = prog.method('SimulatorWorkerThread', 'run', inherited=False)
    for c in _fires_of(wr, 'END_REPLICATION_EVENT'):
        ts = c.args[0] if c.args else None
        ok = ts is not None and unparse(ts) in ('self._job.simulator_time', 'self._job._simulator_time')
        ctx.ob('R11.6', 'worker.run:END-timestamp', ok, sample=f'END_REPLICATION_EVENT timestamp: {unparse(ts) if ts is not None else None}')
        if not ok:
            ctx.finding('R11.6', 'SimulatorWorkerThread.run:END-timestamp', prog.cls('SimulatorWorkerThread'), c, 'END_REPLICATION_EVENT is not timestamped with the simulator clock',
                        where='SimulatorWorkerThread.run')


# --------------------------------------------------------------------------- wake-up is the last act of a start command
def wakeup_last(ctx, sc: SimCtx, rule):
    """The command thread and the run thread must not notify listeners concurrently: in _start_impl every notification and
    every state write happens before the worker is woken (afterwards the run thread owns the model)."""
    prog = ctx.prog
    ctx.rule(rule, 'start hand-over: in _start_impl all notifications (START_REPLICATION, STARTING) and state writes precede worker.wakeup(); '
                   'after the wake-up the command thread only waits')
    dc, fn = prog.resolve(SIM, '_start_impl')
    if fn is None:
        raise AnalysisError('anchor vanished: Simulator._start_impl')
    g = CFG(fn)
    wakes = [c for c in walk_shallow(fn) if isinstance(c, ast.Call) and isinstance(c.func, ast.Attribute) and c.func.attr == 'wakeup']
    ctx.floor(rule, 'wakeup() calls in _start_impl', len(wakes), 1)
    late = []
    for w in wakes:
        wn = _node_containing(g, w)
        for c in walk_shallow(fn):
            if isinstance(c, ast.Call) and isinstance(c.func, ast.Attribute) and c.func.attr in ('fire', 'fire_timed', 'fire_event', 'fire_timed_event') \
                    and unparse(c.func.value) == 'self':
                cn = _node_containing(g, c)
                if cn is not wn and g.reaches(wn, cn):
                    late.append(c)
        for st in walk_shallow(fn):
            if isinstance(st, ast.Assign) and any(isinstance(t, ast.Attribute) and t.attr in ('_run_state', '_replication_state', '_run_until_time', '_run_until_including')
                                                  for t in st.targets):
                sn = g.node_for(st)
                if g.reaches(wn, sn):
                    late.append(st)
    ok = not late
    ctx.ob(rule, 'Simulator._start_impl:wakeup-last', ok, sample=f'_start_impl: notifications / state writes reachable after wakeup(): {[short(x, 50) for x in late]}')
    if not ok:
        ctx.finding(rule, 'Simulator._start_impl:after-wakeup', dc, late[0],
                    f'`{short(late[0], 70)}` can run after the worker thread was woken: the run thread already executes simulation events while the command thread is still '
                    'notifying listeners / writing run parameters, so what listeners see and do (draw random numbers, schedule events) depends on thread timing',
                    where='Simulator._start_impl')


# --------------------------------------------------------------------------- R5.4 the configured strategy is the one consulted
def ctor_arg_for_field(prog, call, field):
    """K(a, b, ...): text of the argument that K.__init__ stores unchanged in self.<field>, or None"""
    if not (isinstance(call, ast.Call) and isinstance(call.func, ast.Name) and call.func.id in prog.classes):
        return None
    ci, init = prog.resolve(call.func.id, '__init__')
    if init is None:
        return None
    st = [n for n in ast.walk(init) if isinstance(n, (ast.Assign, ast.AnnAssign)) and getattr(n, 'value', None) is not None
          and any(is_self_attr(t, field) for t in (n.targets if isinstance(n, ast.Assign) else [n.target]))]
    if len(st) != 1 or not isinstance(st[0].value, ast.Name):
        return None
    params = [a.arg for a in init.args.args][1:]
    if st[0].value.id not in params:
        return None
    k = params.index(st[0].value.id)
    if k < len(call.args) and not any(isinstance(a, ast.Starred) for a in call.args[:k + 1]):
        return unparse(call.args[k])
    for kw in call.keywords:
        if kw.arg == st[0].value.id:
            return unparse(kw.value)
    return None


def r54_strategy_setter(ctx, sc: SimCtx):
    """set_error_strategy stores its argument in the field the run-loop handler reads, on every accepted path"""
    prog = ctx.prog
    ctx.rule('R5.4', 'set_error_strategy(strategy, ...) stores `strategy` in the field the failure handler consults, on every path that does not refuse the call')
    dc, fn = prog.resolve(SIM, 'set_error_strategy')
    if fn is None:
        raise AnalysisError('anchor vanished: Simulator.set_error_strategy')
    p = fn.args.args[1].arg
    g = CFG(fn)
    rdc, rfn = prog.resolve(SIM, '_run')
    trs = _execute_try(sc, rfn) if rfn is not None else []
    S_text = None
    for tr in trs:
        for hh in tr.handlers:
            S_text = S_text or strategy_expr(sc, rfn, hh)[0]
    if S_text is None or not S_text.startswith('self.'):
        raise AnalysisError('anchor vanished: cannot identify the strategy expression of the failure handler')
    path = S_text.split('.')[1:]
    stores, good = [], []
    for st in walk_shallow(fn):
        if not isinstance(st, ast.Assign):
            continue
        for t in st.targets:
            tt = unparse(t)
            if tt == S_text:
                stores.append(st)
                if unparse(st.value) == p:
                    good.append(st)
            elif len(path) == 2 and tt == 'self.' + path[0]:
                # the holder object is replaced: K(..., p, ...) whose constructor stores that argument in the consulted field
                stores.append(st)
                if ctor_arg_for_field(prog, st.value, path[1]) == p:
                    good.append(st)
    nodes = [g.node_for(st) for st in good]
    skipped = g.reaches(g.entry, g.exit, avoid=nodes, labels_excluded=('exc', 'raise', 'reraise')) if nodes else True
    ok = bool(good) and len(good) == len(stores) and not skipped
    ctx.ob('R5.4', 'Simulator.set_error_strategy', ok, sample=f'set_error_strategy: stores {[short(st) for st in stores]}; some accepted path skips the store: {skipped}')
    if not ok:
        ctx.finding('R5.4', 'Simulator.set_error_strategy:store', dc, stores[0] if stores else fn,
                    f'set_error_strategy does not store `{p}` as the strategy on every accepted path (a return is reachable without the store, or another value is stored): '
                    'the run keeps handling failing events with the previously configured strategy', where='Simulator.set_error_strategy')


def settings_persist(ctx, sc: SimCtx, rule='R5.7'):
    """A field a public `set_<x>(value, ..)` method stores its argument in is a setting of the user: besides that setter only the constructor
    writes it.  Anything else that writes it -- cleanup(), initialize(), a reset helper they call -- silently replaces what the user configured
    (the error strategy falls back to its default for every replication after the first)."""
    prog = ctx.prog
    ctx.rule(rule, 'a setting stored by a public set_<x>() method of the simulator is written by that setter and the constructor only (cleanup / initialize do not reset it)')
    n = 0
    family = sorted({c for c in prog.mro(SIM) if c in prog.classes and any(k == 'Simulator' for k in prog.mro(c))} | set(prog.subclasses(SIM, strict=False)))
    settings = {}           # field -> setter names
    for c in family:
        for mname, fn in prog.classes[c].methods.items():
            if not mname.startswith('set_') or mname.startswith('_'):
                continue
            params = {a.arg for a in fn.args.args[1:] + fn.args.kwonlyargs}
            for a in walk_shallow(fn):
                # the argument itself, or an object built from the arguments (`self.F = Policy(strategy, level)`)
                if isinstance(a, (ast.Assign, ast.AnnAssign)) and getattr(a, 'value', None) is not None and (
                        (isinstance(a.value, ast.Name) and a.value.id in params)
                        or (isinstance(a.value, ast.Call) and isinstance(a.value.func, ast.Name) and a.value.args
                            and all(isinstance(x, ast.Name) and x.id in params for x in a.value.args))):
                    for t in (a.targets if isinstance(a, ast.Assign) else [a.target]):
                        if is_self_attr(t):
                            settings.setdefault(t.attr, set()).add(mname)

    def writers_of(c, mname, seen):
        """(field, node, method) written by c.mname directly or through the self-methods it calls"""
        r = prog.resolve(c, mname)
        if not r or r[1] is None or (r[0].name, mname) in seen:
            return []
        seen.add((r[0].name, mname))
        out = []
        for x in walk_shallow(r[1]):
            if isinstance(x, ast.Attribute) and isinstance(x.ctx, ast.Store) and is_self_attr(x) and x.attr in settings:
                out.append((x.attr, x, f'{r[0].name}.{mname}'))
            if isinstance(x, ast.Call) and isinstance(x.func, ast.Attribute) and isinstance(x.func.value, ast.Name) and x.func.value.id == 'self':
                out += writers_of(c, x.func.attr, seen)
        return out
    for c in family:
        ci = prog.classes[c]
        for mname in sorted(ci.methods):
            if mname in ('__init__', '__new__', '__setstate__', '__copy__', '__deepcopy__'):
                continue
            for (f, node, via) in writers_of(c, mname, set()):
                if mname in settings.get(f, ()):
                    continue
                n += 1
                ctx.ob(rule, f'{c}.{mname}:{f}', False)
                ctx.finding(rule, f'{c}.{mname}:resets-{f}', ci, node,
                            f'{c}.{mname}() writes `self.{f}`' + (f' (through {via})' if via != f'{c}.{mname}' else '') +
                            f', the setting stored by {" / ".join(sorted(settings[f]))}(): what the user configured is replaced behind their back '
                            f'(after cleanup() / a second initialize() the simulator handles failing events with the default strategy again)', where=f'{c}.{mname}')
    ctx.ob(rule, 'settings', n == 0, sample=f'settings {sorted((f, sorted(v)) for f, v in settings.items())}: written only by their setters and constructors: {n == 0}')
    ctx.floor(rule, 'settings with a public setter', len(settings), 1)


# --------------------------------------------------------------------------- TIME_CHANGED only for executed events
def time_changed_sites(ctx, sc: SimCtx, rule):
    """every TIME_CHANGED_EVENT notification belongs to a popped event (fired between its pop and its execution): a silent clock
    jump (end of a bounded run) must stay silent, or subscribers act once more in an interrupted run than in an uninterrupted one"""
    prog = ctx.prog
    ctx.rule(rule, 'TIME_CHANGED_EVENT is fired only for an event that was just popped and is about to be executed (not for the clock jump at the end of a bounded run)')
    n = 0
    for ci, fn in sc.sim_functions():
        fires = _fires_of(fn, 'TIME_CHANGED_EVENT')
        if not fires:
            continue
        g = CFG(fn)
        pops = [g.node_for(st) for st in walk_shallow(fn) if isinstance(st, (ast.Assign, ast.AnnAssign)) and st.value is not None and isinstance(st.value, ast.Call)
                and isinstance(st.value.func, ast.Attribute) and st.value.func.attr == 'pop_first']
        for c in fires:
            n += 1
            node = _node_containing(g, c)
            ok = any(g.dominates(pn, node) for pn in pops)
            # ... and the loop head is not in between (the pop of this very iteration)
            if ok:
                heads = [h for h in g.nodes if h.kind == 'cond' and isinstance(h.stmt, ast.While)]
                ok = any(g.dominates(pn, node) and not any(g.dominates(pn, h) and g.dominates(h, node) for h in heads) for pn in pops)
            ctx.ob(rule, f'{ci.name}.{fn.name}:TIME_CHANGED@{getattr(c, "lineno", 0)}', ok, sample=f'{ci.name}.{fn.name}: {short(c, 70)} follows a pop_first() of the same iteration: {ok}')
            if not ok:
                ctx.finding(rule, f'{ci.name}.{fn.name}:TIME_CHANGED-without-pop', ci, c,
                            f'`{short(c, 70)}` is fired on a path that has not popped an event (e.g. when the clock jumps to the bound of run_up_to): a paused run '
                            'notifies time-change subscribers once more than the uninterrupted run, so what they draw / schedule differs', where=f'{ci.name}.{fn.name}')
    ctx.floor(rule, 'TIME_CHANGED_EVENT fire sites', n, 2)


def shared_state(ctx, sc, rule):
    """class-level containers of the simulator / experiment / model classes mutated through instances: shared by all simulators"""
    from .statrules import shared_class_state
    shared_class_state(ctx, rule, sorted(c for c, ci in ctx.prog.classes.items() if ci.module.name in ('simulator', 'experiment', 'model', 'eventlist', 'simevent')),
                       'two simulators (or replications) in one process influence each other')


def start_handshake(ctx, sc, rule):
    """start() / run_up_to*() return when the worker has taken over.  The flag the command thread waits for in _start_impl must be raised
    only after the worker has announced START_EVENT and recorded run state STARTED: otherwise the command returns while the simulator
    still reports STARTING, and a stop() issued then is accepted, announced and then overwritten by the worker."""
    prog = ctx.prog
    ctx.rule(rule, 'start handshake: the flag _start_impl waits for is raised by the worker only after START_EVENT was fired and run state STARTED recorded')
    dc, fn = prog.resolve(SIM, '_start_impl')
    if fn is None:
        raise AnalysisError('anchor vanished: Simulator._start_impl')
    # the flag: a field _start_impl sets to False (re-arming) and some other method sets to True
    armed = {t.attr for st in walk_shallow(fn) if isinstance(st, ast.Assign) and isinstance(st.value, ast.Constant) and st.value.value is False
             for t in st.targets if is_self_attr(t)}
    raised = []
    for cname, ci in prog.classes.items():
        if not (prog.is_subclass(cname, BASE) or cname == 'SimulatorWorkerThread'):
            continue
        for mname, f2 in ci.methods.items():
            for st in walk_shallow(f2):
                if isinstance(st, ast.Assign) and isinstance(st.value, ast.Constant) and st.value.value is True:
                    for t in st.targets:
                        if isinstance(t, ast.Attribute) and t.attr in armed and unparse(t.value) in ('self', 'self._job'):
                            raised.append((ci, f2, st, t.attr))
    flags = {r[3] for r in raised}
    if not flags:
        raise AnalysisError('anchor vanished: no flag that _start_impl re-arms and the run thread raises')
    wt = prog.classes.get('SimulatorWorkerThread')
    wrun = wt.methods.get('run') if wt else None
    if wrun is None:
        raise AnalysisError('anchor vanished: SimulatorWorkerThread.run')
    g = CFG(wrun)
    started = [g.node_for(st) for st in walk_shallow(wrun) if isinstance(st, ast.Assign) and unparse(st.value) == 'RunState.STARTED'
               and any(isinstance(t, ast.Attribute) and t.attr == '_run_state' for t in st.targets)]
    fired = [_node_containing(g, c) for c in walk_shallow(wrun) if isinstance(c, ast.Call) and isinstance(c.func, ast.Attribute) and c.func.attr.startswith('fire')
             and any(isinstance(a, ast.Attribute) and a.attr == 'START_EVENT' for a in c.args)]
    if not started or not fired:
        raise AnalysisError('anchor vanished: the worker does not fire START_EVENT / record STARTED in run()')
    n = 0
    for (ci, f2, st, flag) in raised:
        n += 1
        if f2 is wrun:
            node = g.node_for(st)
        else:
            # raised inside the run method of the simulator: the point in the worker is the call of that method
            calls = [c for c in walk_shallow(wrun) if isinstance(c, ast.Call) and isinstance(c.func, ast.Attribute) and c.func.attr == f2.name]
            if not calls:
                ctx.ob(rule, f'{ci.name}.{f2.name}:{flag}', True, sample=f'{ci.name}.{f2.name} raises {flag} (not reached from the worker loop directly)')
                continue
            node = _node_containing(g, calls[0])
        ok = all(g.dominates(x, node) for x in started) and all(g.dominates(x, node) for x in fired)
        ctx.ob(rule, f'{ci.name}.{f2.name}:{flag}', ok, sample=f'{ci.name}.{f2.name}: `{short(st)}` comes after START_EVENT and run state STARTED in the worker: {ok}')
        if not ok:
            ctx.finding(rule, f'{ci.name}.{f2.name}:{flag}:early', ci, st,
                        f'`{short(st)}` releases the thread waiting in _start_impl before the worker has fired START_EVENT and recorded STARTED: start() returns while the '
                        'simulator still reports STARTING; a stop() issued in that window is accepted and announces STOPPING, then the worker overwrites the state with STARTED '
                        'and runs on -- the accepted command neither is refused nor takes effect', where=f'{ci.name}.{f2.name}')
    ctx.floor(rule, 'sites raising the start flag', n, 1)


# ------------------------------------------------------------------------------------------------ the replication's time frame
class _Obj:
    """an object of a program class as built by its constructor: class name + the values of the constructor parameters"""
    def __init__(self, cname, env):
        self.cname, self.env = cname, env


class _FrameEval:
    """Symbolic evaluation of the time accessors of RunControl / Replication over the constructor parameters: values are affine forms
    over the symbols start_time, warmup_period, run_length (affine.Lin) or objects of program classes (_Obj).  Getters, properties,
    one-return helper methods and straight-line locals are followed; everything else is `unknown`."""

    def __init__(self, prog):
        self.prog = prog

    def field(self, obj, f, depth):
        for c in self.prog.mro(obj.cname):
            ci = self.prog.classes.get(c)
            if ci is None or '__init__' not in ci.methods:
                continue
            init = ci.methods['__init__']
            env = dict(obj.env) if c == obj.cname else None
            if env is None:
                return None
            stores = [a for a in walk_shallow(init) if isinstance(a, (ast.Assign, ast.AnnAssign)) and getattr(a, 'value', None) is not None
                      and any(is_self_attr(t, f) for t in (a.targets if isinstance(a, ast.Assign) else [a.target]))]
            if len(stores) != 1 or stores[0] not in body_of(init):
                return None
            # straight-line locals of the constructor in front of the store
            loc = dict(env)
            for st in body_of(init):
                if st is stores[0]:
                    break
                if isinstance(st, (ast.Assign, ast.AnnAssign)) and getattr(st, 'value', None) is not None:
                    for t in (st.targets if isinstance(st, ast.Assign) else [st.target]):
                        if isinstance(t, ast.Name):
                            loc[t.id] = self.ev(st.value, obj, loc, depth + 1)
            return self.ev(stores[0].value, obj, loc, depth + 1)
        return None

    def member(self, obj, name, depth, args=()):
        from .affine import Lin
        r = self.prog.resolve(obj.cname, name)
        ci, fn = r if r else (None, None)
        if fn is None:
            return self.field(obj, name, depth)
        body = body_of(fn)
        params = [a.arg for a in fn.args.args][1:]
        loc = dict(zip(params, args))
        for st in body:
            if isinstance(st, (ast.Assign, ast.AnnAssign)) and getattr(st, 'value', None) is not None:
                for t in (st.targets if isinstance(st, ast.Assign) else [st.target]):
                    if isinstance(t, ast.Name):
                        loc[t.id] = self.ev(st.value, obj, loc, depth + 1)
                    else:
                        return None
            elif isinstance(st, ast.Return) and st.value is not None:
                return self.ev(st.value, obj, loc, depth + 1)
            else:
                return None
        return None

    def ev(self, e, obj, loc, depth=0):
        from .affine import Lin
        if depth > 12:
            return None
        if isinstance(e, ast.Constant) and isinstance(e.value, (int, float)) and not isinstance(e.value, bool):
            from fractions import Fraction
            return Lin(Fraction(e.value))
        if isinstance(e, ast.Name):
            return loc.get(e.id) if e.id != 'self' else obj
        if isinstance(e, ast.Attribute):
            o = self.ev(e.value, obj, loc, depth + 1)
            if isinstance(o, _Obj):
                r = self.prog.resolve(o.cname, e.attr)
                if r and r[1] is not None and e.attr not in self.prog.classes[r[0].name].props:
                    return None                   # a bound method, not a value
                return self.member(o, e.attr, depth + 1)
            return None
        if isinstance(e, ast.Call):
            if isinstance(e.func, ast.Name) and e.func.id in self.prog.classes and not e.keywords:
                ci = self.prog.classes[e.func.id]
                r = self.prog.resolve(e.func.id, '__init__')
                if not r or r[1] is None or r[0].name != e.func.id:
                    return None
                params = [a.arg for a in r[1].args.args][1:]
                if len(e.args) > len(params):
                    return None
                return _Obj(e.func.id, {p: self.ev(a, obj, loc, depth + 1) for p, a in zip(params, e.args)})
            if isinstance(e.func, ast.Attribute) and not e.keywords:
                o = self.ev(e.func.value, obj, loc, depth + 1)
                if isinstance(o, _Obj):
                    return self.member(o, e.func.attr, depth + 1, [self.ev(a, obj, loc, depth + 1) for a in e.args])
            return None
        if isinstance(e, ast.BinOp) and isinstance(e.op, (ast.Add, ast.Sub)):
            l, r = self.ev(e.left, obj, loc, depth + 1), self.ev(e.right, obj, loc, depth + 1)
            if isinstance(l, Lin) and isinstance(r, Lin):
                return l + r if isinstance(e.op, ast.Add) else l - r
            return None
        if isinstance(e, ast.UnaryOp) and isinstance(e.op, ast.USub):
            v = self.ev(e.operand, obj, loc, depth + 1)
            return v.scale(-1) if isinstance(v, Lin) else None
        return None


def replication_frame(ctx, rule):
    """The simulator takes its start time, warm-up time and horizon from the replication: each time accessor of RunControl and
    Replication, evaluated symbolically over the constructor arguments, must be the documented combination of start time, warm-up
    period and run length (sums and differences are compared as affine forms, so `a` and `(s + a) - s` are the same answer)."""
    from .affine import Lin
    prog = ctx.prog
    ctx.rule(rule, 'time accessors of RunControl / Replication: start = s, warm-up time = s + w, end = s + L, warm-up period = w, run length = L over the constructor arguments')
    S_, W_, L_ = 'start_time', 'warmup_period', 'run_length'
    want = {'start_sim_time': Lin(0, {S_: 1}), 'warmup_sim_time': Lin(0, {S_: 1, W_: 1}), 'end_sim_time': Lin(0, {S_: 1, L_: 1}),
            'warmup_period': Lin(0, {W_: 1}), 'run_length': Lin(0, {L_: 1})}
    fe = _FrameEval(prog)
    n = 0
    for cname in ('RunControl', 'Replication'):
        ci = prog.classes.get(cname)
        if ci is None:
            raise AnalysisError(f'anchor vanished: class {cname}')
        init = ci.methods.get('__init__')
        params = [a.arg for a in init.args.args][1:] if init is not None else []
        if not {S_, W_, L_} <= set(params):
            raise AnalysisError(f'anchor vanished: {cname}.__init__ parameters start_time / warmup_period / run_length')
        obj = _Obj(cname, {p: Lin(0, {p: 1}) for p in (S_, W_, L_)})
        for acc, w in want.items():
            r = prog.resolve(cname, acc)
            if not r or r[1] is None:
                raise AnalysisError(f'anchor vanished: {cname}.{acc}')
            got = fe.member(obj, acc, 0)
            n += 1
            ok = isinstance(got, Lin) and got == w
            ctx.ob(rule, f'{cname}.{acc}', ok, sample=f'{cname}.{acc} = {got!r} over the constructor arguments; documented {w!r}')
            if not ok:
                shown = repr(got) if isinstance(got, Lin) else 'a value this analysis cannot express over the constructor arguments'
                ctx.finding(rule, f'{cname}.{acc}', r[0], r[1],
                            f'{cname}.{acc} evaluates to {shown}; documented: {w!r}. The simulator takes its horizon, warm-up time and start time from these accessors, '
                            f'so a replication that does not start at zero ends (or warms up) at the wrong time', where=f'{cname}.{acc}')
    ctx.floor(rule, 'time accessors evaluated', n, 10)


# ------------------------------------------------------------------------------------------------ exceptions whose text is computed lazily
def exception_text_total(ctx, rule):
    """The error strategies log / print `str(e)` of what a failed event raised, from inside their except-blocks.  An exception class of the
    package that renders its text lazily (`__str__` / `__repr__` formatting the objects it carries) moves user code -- the `__str__` of the
    event's target, the `repr` of its arguments -- into those except-blocks: if it fails there, the failure escapes the strategy."""
    prog = ctx.prog
    ctx.rule(rule, 'exception classes of the package carry their message as computed when raised: no __str__ / __repr__ that formats carried objects lazily')
    BUILTIN = {'Exception', 'BaseException', 'ValueError', 'TypeError', 'RuntimeError', 'KeyError', 'LookupError', 'ArithmeticError', 'AttributeError', 'IndexError',
               'OSError', 'NotImplementedError', 'AssertionError', 'StopIteration'}

    def is_exc(c, seen=()):
        ci = prog.classes.get(c)
        if ci is None:
            return c in BUILTIN or c.endswith('Error') or c.endswith('Exception')
        return any(is_exc(unparse(b).split('.')[-1], seen + (c,)) for b in ci.node.bases if unparse(b).split('.')[-1] not in seen)
    n = 0
    for cname, ci in sorted(prog.classes.items()):
        if not is_exc(cname):
            continue
        n += 1
        for m in ('__str__', '__repr__', '__format__'):
            fn = ci.methods.get(m)
            if fn is None:
                continue
            lazy = [x for x in walk_shallow(fn) if isinstance(x, ast.FormattedValue) or (isinstance(x, ast.Call) and unparse(x.func) in ('str', 'repr', 'format'))
                    or (isinstance(x, ast.Call) and isinstance(x.func, ast.Attribute) and x.func.attr == 'format')
                    or (isinstance(x, ast.BinOp) and isinstance(x.op, ast.Mod) and isinstance(x.left, ast.Constant) and isinstance(x.left.value, str))]
            lazy = [x for x in lazy if any(isinstance(y, (ast.Attribute, ast.Name)) and not (isinstance(y, ast.Name) and y.id in ('str', 'repr', 'format', 'self'))
                                           for y in ast.walk(x))]
            ctx.ob(rule, f'{cname}.{m}', not lazy, sample=f'{cname}.{m} formats carried objects when called: {bool(lazy)}')
            if lazy:
                ctx.finding(rule, f'{cname}.{m}:lazy-text', ci, lazy[0],
                            f'{cname}.{m} formats the objects the exception carries (`{short(lazy[0], 50)}`) each time the text is asked for: the simulator asks for it inside '
                            f'the except-blocks of its error strategies (log / print of str(e)), so a target or argument whose own __str__ / __repr__ fails makes the '
                            f'strategy itself fail -- the run thread dies in state STARTED (or step() leaks an unrelated exception) instead of continuing, pausing or ending',
                            where=f'{cname}.{m}')
    ctx.note(f'{rule}: {n} exception classes of the package examined')


# ------------------------------------------------------------------------------------------------ an accepted stop / start takes effect
def accepted_command_effect(ctx, rule):
    """A stop() that was admitted (no DSOLError) has set the run state to STOPPING when it returns, a start / bounded run to STARTING --
    on every normal path, whichever thread issued the command (`statrules.must_effects`: what the command certainly does, self / super
    calls followed, nothing counted after a statement that may return early)."""
    from .statrules import must_effects
    prog = ctx.prog
    ctx.rule(rule, 'an admitted stop() sets the run state to STOPPING, an admitted start / run_up_to* to STARTING, on every normal path')
    for cmd, want in (('stop', 'STOPPING'), ('start', 'STARTING'), ('run_up_to', 'STARTING'), ('run_up_to_including', 'STARTING')):
        r = prog.resolve(SIM, cmd)
        if not r or r[1] is None:
            raise AnalysisError(f'anchor vanished: {SIM}.{cmd}')
        eff = must_effects(prog, SIM, cmd)
        sets = [n for (k, f, n) in eff if k == 'set' and f == '_run_state' and isinstance(n, (ast.Assign, ast.AnnAssign))
                and unparse(n.value).endswith('.' + want)]
        ctx.ob(rule, f'{cmd}:{want}', bool(sets), sample=f'{cmd}() certainly sets the run state to {want}: {bool(sets)}')
        if not sets:
            ctx.finding(rule, f'{SIM}.{cmd}:no-effect', r[0], r[1],
                        f'{cmd}() can return normally without having set the run state to {want} (an early return in front of the assignment, or the assignment on '
                        f'one branch only): the command is accepted -- its notification may even be fired -- but has no effect, the run goes on as if nothing was asked',
                        where=f'{SIM}.{cmd}')


# ------------------------------------------------------------------------------------------------ plain numbers and quantities
def plain_number_tests(ctx, rule, module_names=('simulator', 'simevent', 'eventlist', 'experiment')):
    """A quantity IS a float (Quantity subclasses float), so `isinstance(x, (int, float))` is true for a Duration as well.  Code that reads a
    *plain* number as a quantity in some unit -- `Duration(float(x), unit)` -- under such a test re-reads a Duration's SI value in that unit:
    30 min becomes 1800 min.  The test must exclude quantities (`type(x) in (int, float)`, or `not isinstance(x, Quantity)`)."""
    prog = ctx.prog
    ctx.rule(rule, 'a value is re-read as a quantity in a unit only when it is a plain number: isinstance(x, float) also holds for quantities')
    quantities = {c for c in prog.classes if 'Quantity' in prog.mro(c)}
    n = 0
    for oc, fn, mod in prog.functions():
        if mod.name not in module_names:
            continue
        g = None
        for c in walk_shallow(fn):
            if not (isinstance(c, ast.Call) and isinstance(c.func, ast.Name) and c.func.id in quantities and len(c.args) == 2):
                continue
            names = {x.id for x in ast.walk(c.args[0]) if isinstance(x, ast.Name)} & {a.arg for a in fn.args.args}
            if not names:
                continue
            n += 1
            p = sorted(names)[0]
            g = g or CFG(fn)
            node = _node_containing(g, c)
            guards = [(unparse(cn.ast), br) for (cn, br) in g.guard_branches(node, atoms=True)] if node is not None else []
            loose = [t for (t, br) in guards if br and t.startswith('isinstance(') and f'({p},' in t.replace(' ', '').replace('isinstance(', '(', 1)
                     and ('float' in t or 'int' in t)]
            exact = any((br and t.startswith(f'type({p})') and (' in ' in t or ' is ' in t or '==' in t)) or
                        (not br and t.startswith('isinstance(') and any(q in t for q in quantities | {'Quantity'})) for (t, br) in guards)
            ok = not loose or exact
            where_ = f'{oc.name}.{fn.name}' if oc else fn.name
            ctx.ob(rule, f'{where_}:{p}', ok, sample=f'{where_}: `{short(c, 50)}` under {[t for t, _b in guards][:3]}')
            if not ok:
                ctx.finding(rule, f'{where_}:{p}:quantity-as-plain-number', oc, c,
                            f'`{short(c, 60)}` is reached when `{loose[0]}` holds, which is also true for a {c.func.id} (a quantity is a float): a {c.func.id} argument is rebuilt '
                            f'from its SI value read in the display unit, so with a display unit other than the base unit delays, times and bounds are scaled by the unit factor',
                            where=where_, module=mod)
    ctx.note(f'{rule}: {n} constructions of a quantity from a parameter examined')
