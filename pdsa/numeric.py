"""E7 -- path-sensitive numeric abstract interpreter (intervals with open/closed ends + may-be-NaN flag +
order facts between symbolic atoms) that proves implicit arithmetic domain errors absent (division by zero,
log/sqrt/pow domain, inv_cdf range ...) or reports the sink it cannot prove.

Analyses source text only (ast) - never imports the package under analysis.  Real-number semantics:
overflow, underflow and rounding are not modelled.
"""
import ast
import itertools
import math
import sys
from dataclasses import dataclass, field

from . import itv as I
from .itv import Itv

FULLTOP = Itv(-I.INF, I.INF, False, False, nan=True)

_ids = itertools.count(1)


def fresh():
    return next(_ids)


# --------------------------------------------------------------------- facts
class Rel:
    """order facts between atoms: a<b, a<=b, a!=b (eq = le both ways)."""

    def __init__(self, lt=None, le=None, ne=None):
        self.lt = set(lt or ())
        self.le = set(le or ())
        self.ne = set(ne or ())

    def copy(self):
        return Rel(self.lt, self.le, self.ne)

    def add(self, a, op, b):
        if a == b:
            return
        if op == '<':
            self.lt.add((a, b))
        elif op == '<=':
            self.le.add((a, b))
        elif op == '>':
            self.lt.add((b, a))
        elif op == '>=':
            self.le.add((b, a))
        elif op == '==':
            self.le.add((a, b)); self.le.add((b, a))
        elif op == '!=':
            self.ne.add(frozenset((a, b)))

    def _reach(self, a, b):
        """returns None / 'le' / 'lt' : derivable a<=b or a<b"""
        if a == b:
            return 'le'
        best = {a: False}       # node -> strict?
        work = [a]
        while work:
            x = work.pop()
            sx = best[x]
            for (p, q) in self.lt:
                if p == x and (q not in best or (not best[q])):
                    if q not in best or not best[q]:
                        best[q] = True; work.append(q)
            for (p, q) in self.le:
                if p == x:
                    if q not in best:
                        best[q] = sx; work.append(q)
                    elif sx and not best[q]:
                        best[q] = True; work.append(q)
        if b not in best:
            return None
        return 'lt' if best[b] else 'le'

    def possible(self, a, b):
        """subset of {'<','=','>'} not excluded by the facts"""
        if a == b:
            return {'='}
        ab = self._reach(a, b)
        ba = self._reach(b, a)
        poss = {'<', '=', '>'}
        if ab == 'lt':
            poss &= {'<'}
        elif ab == 'le':
            poss &= {'<', '='}
        if ba == 'lt':
            poss &= {'>'}
        elif ba == 'le':
            poss &= {'>', '='}
        if frozenset((a, b)) in self.ne:
            poss -= {'='}
        return poss

    def restrict(self, atoms):
        return Rel({p for p in self.lt if p[0] in atoms and p[1] in atoms},
                   {p for p in self.le if p[0] in atoms and p[1] in atoms},
                   {p for p in self.ne if all(x in atoms for x in p)})

    def intersect(self, other):
        # keep only facts derivable in both (cheap version: syntactic + derivable check)
        out = Rel()
        for (a, b) in self.lt:
            if other._reach(a, b) == 'lt':
                out.lt.add((a, b))
        for (a, b) in self.le:
            r = other._reach(a, b)
            if r:
                out.le.add((a, b))
        for (a, b) in other.lt:
            r = self._reach(a, b)
            if r == 'lt':
                out.lt.add((a, b))
            elif r == 'le':
                out.le.add((a, b))
        for (a, b) in other.le:
            if self._reach(a, b):
                out.le.add((a, b))
        out.ne = self.ne & other.ne
        return out


# --------------------------------------------------------------------- state
class State:
    def __init__(self):
        self.val = {}      # atom -> Itv
        self.env = {}      # local name -> atom
        self.fld = {}      # self.<field> -> atom
        self.rel = Rel()
        self.defs = {}     # atom -> ('mul',a,b) ...
        self.obj = {}      # atom -> ('inst',cls)|('tuple',[atoms])|('none',)|('str',)|('stream',)
        self.num = set()   # atoms known to be of type float / int (literals, validated by isinstance, arithmetic of such)
        self.under = set() # atoms that are mathematically > 0 but can underflow to 0.0 in floating point (exp(..) and products / powers of such)

    def fork(self):
        s = State()
        s.val = dict(self.val); s.env = dict(self.env); s.fld = dict(self.fld)
        s.rel = self.rel.copy(); s.defs = dict(self.defs); s.obj = dict(self.obj)
        s.num = set(self.num)
        s.under = set(self.under)
        s.prev_fld = dict(getattr(self, 'prev_fld', {}))
        s.ofld = dict(getattr(self, 'ofld', {}))
        return s

    def new(self, iv, d=None, obj=None):
        a = fresh()
        self.val[a] = iv
        if d is not None:
            self.defs[a] = d
        if obj is not None:
            self.obj[a] = obj
        return a

    def iv(self, a):
        return self.val.get(a, FULLTOP)

    def refine(self, a, iv, _depth=0):
        cur = self.iv(a)
        m = I.meet(cur, iv)
        # meet() ANDs nan; keep caller's decision on nan via explicit set_nan
        m = Itv(m.lo, m.hi, m.lo_open, m.hi_open, cur.nan and iv.nan, cur.isint or iv.isint, m.empty).norm()
        self.val[a] = m
        if m != cur and not m.is_bottom():
            self.propagate_from(a, _depth)
        return not m.is_bottom()

    def propagate_from(self, a, _depth=0):
        """atoms are values: a value computed from `a` before a fact about `a` was learnt still equals the same expression of it"""
        if _depth >= 3:
            return
        for y, d in list(self.defs.items()):
            if d[0] in ('add', 'sub', 'mul') and len(d) == 3 and a in (d[1], d[2]) and y in self.val:
                ip, iq = self.iv(d[1]), self.iv(d[2])
                if ip.empty or iq.empty:
                    continue
                r = I.add(ip, iq) if d[0] == 'add' else I.sub(ip, iq) if d[0] == 'sub' else (I.square(ip) if d[1] == d[2] else I.mul(ip, iq))
                oy = self.val[y]
                my = I.meet(oy, r)
                my = Itv(my.lo, my.hi, my.lo_open, my.hi_open, oy.nan and r.nan, oy.isint, my.empty).norm()
                if my != oy and not my.is_bottom():
                    self.val[y] = my
                    self.propagate_from(y, _depth + 1)


def join_obj(objs):
    """common object tag of several atoms; an optional instance (None | inst C) is treated as inst C -- dereferencing None
    is not an arithmetic sink and is outside this analysis"""
    objs = list(objs)
    if not objs or any(o is None for o in objs):
        return None
    kinds = {o for o in objs}
    if len(kinds) == 1:
        return objs[0]
    insts = {o for o in kinds if o[0] == 'inst'}
    if len(insts) == 1 and kinds - insts == {('none',)}:
        return next(iter(insts))
    return None


def join_states(states):
    """pointwise hull of several states into one."""
    states = [s for s in states if s is not None]
    if not states:
        return None
    if len(states) == 1:
        return states[0]
    out = State()
    first = states[0]
    rel = None
    shared_atoms = None
    for s in states:
        at = set(s.val)
        shared_atoms = at if shared_atoms is None else (shared_atoms & at)
    for s in states:
        r = s.rel.restrict(shared_atoms)
        rel = r if rel is None else rel.intersect(r)
    out.rel = rel
    for a in shared_atoms:
        iv = None
        for s in states:
            iv = s.val[a] if iv is None else I.join(iv, s.val[a])
        out.val[a] = iv
        if all(s.defs.get(a) == first.defs.get(a) for s in states) and a in first.defs:
            out.defs[a] = first.defs[a]
        if all(s.obj.get(a) == first.obj.get(a) for s in states) and a in first.obj:
            out.obj[a] = first.obj[a]
        if all(a in s.num for s in states):
            out.num.add(a)
        if any(a in s.under for s in states):
            out.under.add(a)

    def merge(getmap, setmap):
        names = set()
        for s in states:
            names |= set(getmap(s))
        for n in names:
            atoms = [getmap(s).get(n) for s in states]
            if any(a is None for a in atoms):
                continue          # not defined on all paths
            if all(a == atoms[0] for a in atoms):
                setmap(out)[n] = atoms[0]
                if atoms[0] not in out.val:
                    out.val[atoms[0]] = first.iv(atoms[0])
            else:
                iv = None
                for s, a in zip(states, atoms):
                    iv = s.iv(a) if iv is None else I.join(iv, s.iv(a))
                na = out.new(iv)
                if all(a in s.num for s, a in zip(states, atoms)):
                    out.num.add(na)
                if any(a in s.under for s, a in zip(states, atoms)):
                    out.under.add(na)
                objs_ = [s.obj.get(a) for s, a in zip(states, atoms)]
                jo = join_obj(objs_)
                if jo is None and all(o is not None and o[0] in ('tuple', 'seq') for o in objs_):
                    # sequences of differing length / content: one atom for the hull of all their elements
                    eiv = None
                    for s, o in zip(states, objs_):
                        for x in (o[1] if o[0] == 'tuple' else (o[1],)):
                            eiv = s.iv(x) if eiv is None else I.join(eiv, s.iv(x))
                    jo = ('seq', out.new(eiv if eiv is not None else I.BOTTOM))
                if jo is not None:
                    out.obj[na] = jo
                # facts common to all states between this var and shared atoms
                for b in list(shared_atoms)[:0]:
                    pass
                setmap(out)[n] = na
    merge(lambda s: s.env, lambda s: s.env)
    merge(lambda s: s.fld, lambda s: s.fld)
    return out


# --------------------------------------------------------------------- program model
from .core import NOCONST, Program as _CoreProgram  # noqa: E402


class Program:
    """adapter over pdsa.core.Program with the small interface the interpreter needs"""

    def __init__(self, core: _CoreProgram, modules=None):
        self.core = core
        self.classes = {n: c for n, c in core.classes.items() if modules is None or c.module.name in modules}
        self.funcs = {n: fn for n, (m, fn) in core.funcs.items() if modules is None or m.name in modules}

    def mro(self, cname):
        return [c for c in self.core.mro(cname) if c in self.classes]

    def resolve(self, cname, mname, after=None):
        order = self.mro(cname)
        if after is not None and after in order:
            order = order[order.index(after) + 1:]
        for c in order:
            ci = self.classes[c]
            if mname in ci.methods:
                return ci, ci.methods[mname]
        return None, None

    def is_prop(self, cname, attr):
        for c in self.mro(cname):
            ci = self.classes[c]
            if attr in ci.methods:
                return attr in ci.props
        return False

    def const(self, cname, attr):
        for c in self.mro(cname):
            ci = self.classes[c]
            if attr in ci.assigns:
                v = ci.const(attr)
                return None if v is NOCONST else v
        return None


MATH_CONST = {'math.e': math.e, 'math.pi': math.pi, 'math.inf': math.inf, 'math.nan': math.nan}


@dataclass
class Flow:
    normal: list = field(default_factory=list)
    returns: list = field(default_factory=list)   # (state, atom)
    breaks: list = field(default_factory=list)
    conts: list = field(default_factory=list)
    breaks_seen: list = field(default_factory=list)


class Analyser:
    def __init__(self, prog, axioms=None, max_depth=5, cap=64, param_finite=True, record_raises=False):
        self.record_raises = record_raises
        self.strict_types = False
        self.reached_raises = set()    # (defining class, function, line) of every explicit raise some abstract state reaches
        self.expr_axioms = {}      # (def_cls, function, expression text) -> Itv : hand-proved local range facts
        self.expr_axioms_used = set()
        self.prog = prog
        self.axioms = axioms or {}
        self.max_depth = max_depth
        self.cap = cap
        self.record = False
        self.sinks = {}       # key -> dict(unsafe, visits, why)
        self.cur = []         # stack of (self_cls, def_cls, fname)
        self.draw_summaries = {}
        self.invariants = {}
        self.notes = []
        self.param_finite = param_finite

    # ------------------------------------------------------------- sinks
    def sink(self, node, kind, ok, why):
        if not ok:
            self.unsafe_events = getattr(self, 'unsafe_events', 0) + 1
        if not self.record:
            return
        self_cls, def_cls, fname = self.cur[-1]
        chain = ' > '.join(f'{d}.{f}' for (_, d, f) in self.cur)
        key = (def_cls, fname, node.lineno, node.col_offset, getattr(node,'end_lineno',0), getattr(node,'end_col_offset',0), kind)
        e = self.sinks.setdefault(key, {'unsafe': 0, 'visits': 0, 'why': set(), 'text': ast.unparse(node).split('\n')[0][:90],
                                        'chains': set()})
        e['visits'] += 1
        if not ok:
            e['unsafe'] += 1
            e['why'].add(why)
            e['chains'].add(chain)

    # ------------------------------------------------------------- expressions
    def ev(self, st, node):
        """-> list of (state, atom)"""
        m = getattr(self, 'ev_' + type(node).__name__, None)
        if m is None:
            return [(st, st.new(FULLTOP))]
        res = m(st, node)
        if isinstance(node, ast.Constant) and isinstance(node.value, (int, float)):
            for (s_, a_) in res:
                s_.num.add(a_)
        elif isinstance(node, ast.Call):
            ft_ = ast.unparse(node.func)
            if ft_ == 'len' or ft_.startswith('math.'):
                for (s_, a_) in res:
                    s_.num.add(a_)
        elif isinstance(node, ast.Attribute) and ast.unparse(node) in MATH_CONST:
            for (s_, a_) in res:
                s_.num.add(a_)
        if self.expr_axioms and self.cur and isinstance(node, (ast.BinOp, ast.UnaryOp, ast.Call)):
            key = (self.cur[-1][1], self.cur[-1][2], ast.unparse(node))
            ax = self.expr_axioms.get(key)
            if ax is not None:
                self.expr_axioms_used.add(key)
                out = []
                for (s, a) in res:
                    cur = s.iv(a)
                    mm = I.meet(Itv(cur.lo, cur.hi, cur.lo_open, cur.hi_open, False, cur.isint, cur.empty), ax)
                    na = s.new(Itv(mm.lo, mm.hi, mm.lo_open, mm.hi_open, False, cur.isint, mm.empty), d=s.defs.get(a))
                    out.append((s, na))
                return out
        return res

    def ev_seq(self, st, nodes):
        outs = [(st, [])]
        for n in nodes:
            nxt = []
            for (s, atoms) in outs:
                for (s2, a) in self.ev(s, n):
                    nxt.append((s2, atoms + [a]))
            outs = nxt
        return outs

    def ev_Constant(self, st, node):
        v = node.value
        if v is None:
            return [(st, st.new(FULLTOP, obj=('none',)))]
        c = I.const(v)
        if c is None:
            return [(st, st.new(FULLTOP, obj=('str',)))]
        return [(st, st.new(c, d=('const', v)))]

    def ev_JoinedStr(self, st, node):
        return [(st, st.new(FULLTOP, obj=('str',)))]

    def ev_Tuple(self, st, node):
        out = []
        for (s, atoms) in self.ev_seq(st, node.elts):
            out.append((s, s.new(FULLTOP, obj=('tuple', tuple(atoms)))))
        return out

    ev_List = ev_Tuple

    def ev_Name(self, st, node):
        if node.id in st.env:
            return [(st, st.env[node.id])]
        if node.id in ('True', 'False'):
            return [(st, st.new(I.const(node.id == 'True')))]
        return [(st, st.new(FULLTOP))]

    def ev_Attribute(self, st, node):
        txt = ast.unparse(node)
        if txt in MATH_CONST:
            v = MATH_CONST[txt]
            return [(st, st.new(I.const(v) if not math.isinf(v) else Itv(v, v, False, False), d=('const', v)))]
        if isinstance(node.value, ast.Name) and node.value.id in ('self', 'cls'):
            self_cls = self.cur[-1][0]
            if self.prog.is_prop(self_cls, node.attr):
                return self.call_method(st, self_cls, node.attr, [], {}, node)
            if node.attr in st.fld:
                return [(st, st.fld[node.attr])]
            c = self.prog.const(self_cls, node.attr)
            if c is not None and I.const(c) is not None:
                return [(st, st.new(I.const(c), d=('const', c)))]
            a = st.new(FULLTOP)
            st.fld[node.attr] = a
            return [(st, a)]
        # ClassName.CONST
        if isinstance(node.value, ast.Name) and node.value.id in self.prog.classes:
            c = self.prog.const(node.value.id, node.attr)
            if c is not None and I.const(c) is not None:
                return [(st, st.new(I.const(c), d=('const', c)))]
        out = []
        for (s, a) in self.ev(st, node.value):
            o = s.obj.get(a)
            if o and o[0] == 'inst' and o[1] in self.prog.classes and isinstance(node.value, ast.Name) and not self.prog.is_prop(o[1], node.attr):
                # a field of another instance of an analysed class (a parameter that passed `isinstance(p, C)`): that object is between two of
                # its method calls, so its fields lie in the class invariant of C (the invariant under construction while C itself is being
                # analysed -- the fixpoint covers the values that flow in from the other object).  One atom per (object, field) and state, so
                # tests on the field refine later reads.  The other object is assumed not to be `self` (aliasing is out of scope, stated in
                # the evidence).
                if not hasattr(s, 'ofld'):
                    s.ofld = {}
                key = (a, node.attr)
                if key not in s.ofld:
                    inv = self.invariants.get(o[1]) or getattr(self, 'inv_in_progress', {}).get(o[1])
                    if inv is None and o[1] != (self.cur[0][0] if self.cur else None):
                        inv = self.class_invariant(o[1])
                    ent = inv['fields'].get(node.attr) if inv else None
                    if ent is not None and (ent[1] is None or ent[1][0] in ('none',)):
                        na = s.new(ent[0], obj=ent[1])
                        if node.attr in inv.get('num', ()):
                            s.num.add(na)
                        if node.attr in inv.get('under', ()):
                            s.under.add(na)
                    else:
                        na = s.new(FULLTOP)
                    s.ofld[key] = na
                    self.other_instance_reads = getattr(self, 'other_instance_reads', set()) | {(o[1], node.attr)}
                out.append((s, s.ofld[key]))
                continue
            out.append((s, s.new(FULLTOP)))
        return out

    def ev_Subscript(self, st, node):
        out = []
        if isinstance(node.slice, ast.Slice) and node.slice.step is None:
            # t[a:b] of a literal tuple / list with known bounds: the tuple of those elements
            parts = [node.value] + [x for x in (node.slice.lower, node.slice.upper) if x is not None]
            for (s, atoms) in self.ev_seq(st, parts):
                o = s.obj.get(atoms[0])
                ivs = [s.iv(a) for a in atoms[1:]]
                if o and o[0] == 'tuple' and all(iv.is_point() for iv in ivs):
                    k = [int(iv.lo) for iv in ivs]
                    lo = k[0] if node.slice.lower is not None else None
                    hi = (k[1] if node.slice.lower is not None else k[0]) if node.slice.upper is not None else None
                    out.append((s, s.new(FULLTOP, obj=('tuple', tuple(o[1][lo:hi])))))
                else:
                    out.append((s, s.new(FULLTOP)))
            return out
        for (s, (base, idx)) in self.ev_seq(st, [node.value, node.slice]):
            o = s.obj.get(base)
            iv = s.iv(idx)
            if o and o[0] == 'tuple' and iv.is_point():
                k = int(iv.lo)
                if -len(o[1]) <= k < len(o[1]):
                    out.append((s, o[1][k])); continue
            if o and o[0] == 'seq':
                out.append((s, s.new(s.iv(o[1])))); continue          # any element of a homogeneous sequence
            out.append((s, s.new(FULLTOP)))
        return out

    def ev_UnaryOp(self, st, node):
        out = []
        if isinstance(node.op, ast.Not):
            for s in self.assume(st.fork(), node.operand, True):
                out.append((s, s.new(I.FALSE)))
            for s in self.assume(st.fork(), node.operand, False):
                out.append((s, s.new(I.TRUE)))
            return out
        for (s, a) in self.ev(st, node.operand):
            if isinstance(node.op, ast.USub):
                na_ = s.new(I.neg(s.iv(a)), d=('neg', a))
                if a in s.num:
                    s.num.add(na_)
                out.append((s, na_))
            elif isinstance(node.op, ast.UAdd):
                out.append((s, a))
            else:
                out.append((s, s.new(FULLTOP)))
        return out

    def ev_BoolOp(self, st, node):
        out = []
        for s in self.assume(st.fork(), node, True):
            out.append((s, s.new(I.TRUE)))
        for s in self.assume(st.fork(), node, False):
            out.append((s, s.new(I.FALSE)))
        return out

    def ev_Compare(self, st, node):
        return self.ev_BoolOp(st, node)

    def ev_NamedExpr(self, st, node):
        out = []
        for (s, a) in self.ev(st, node.value):
            if isinstance(node.target, ast.Name):
                s.env[node.target.id] = a
            out.append((s, a))
        return out

    def ev_IfExp(self, st, node):
        out = []
        for s in self.assume(st.fork(), node.test, True):
            out += self.ev(s, node.body)
        for s in self.assume(st.fork(), node.test, False):
            out += self.ev(s, node.orelse)
        return out

    # ---- arithmetic with relational help
    def sign_of_diff(self, s, a, b):
        """refine interval of a-b using order facts"""
        poss = s.rel.possible(a, b)
        iv = Itv(-I.INF, I.INF, False, False, nan=True)
        if poss == {'>'}:
            return Itv(0.0, I.INF, True, False)
        if poss == {'>', '='}:
            return Itv(0.0, I.INF, False, False)
        if poss == {'<'}:
            return Itv(-I.INF, 0.0, False, True)
        if poss == {'<', '='}:
            return Itv(-I.INF, 0.0, False, False)
        if poss == {'='}:
            return Itv(0.0, 0.0, False, False)
        if poss == {'<', '>'}:
            return None  # nonzero, handled by caller
        return iv

    def binop(self, s, op, a, b, node):
        ia, ib = s.iv(a), s.iv(b)
        if isinstance(op, ast.Add):
            r = s.new(I.add(ia, ib), d=('add', a, b))
            # a + b with b >= 0 is >= a (and symmetrically); strict when b > 0
            for (x, ix, y, iy) in ((a, ia, b, ib), (b, ib, a, ia)):
                if not iy.empty and not iy.nan and not ix.nan:
                    if iy.gt0():
                        s.rel.add(x, '<', r)
                    elif iy.ge0():
                        s.rel.add(x, '<=', r)
                    if iy.lt0():
                        s.rel.add(r, '<', x)
                    elif iy.le0():
                        s.rel.add(r, '<=', x)
            return r
        if isinstance(op, ast.Sub):
            r = I.sub(ia, ib)
            sd = self.sign_of_diff(s, a, b)
            ne = False
            if sd is None:
                ne = True
            elif not (sd.lo == -I.INF and sd.hi == I.INF):
                m = I.meet(Itv(r.lo, r.hi, r.lo_open, r.hi_open), sd)
                r = Itv(m.lo, m.hi, m.lo_open, m.hi_open, r.nan, r.isint, m.empty)
            # product lemma: a - a*u  with a>0, u in [0,1)  => >0 ; u in [0,1] => >=0
            db = s.defs.get(b)
            if db and db[0] == 'mul':
                for (x, u) in ((db[1], db[2]), (db[2], db[1])):
                    if x == a or s.rel.possible(x, a) == {'='}:
                        iu = s.iv(u)
                        if ia.gt0() and iu.ge0() and iu.hi <= 1.0:
                            lo_open = iu.hi < 1.0 or iu.hi_open
                            m = I.meet(Itv(r.lo, r.hi, r.lo_open, r.hi_open), Itv(0.0, I.INF, lo_open, False))
                            r = Itv(m.lo, m.hi, m.lo_open, m.hi_open, r.nan, r.isint, m.empty)
            at = s.new(r, d=('sub', a, b))
            if not ib.empty and not ib.nan and not ia.nan:
                if ib.gt0():
                    s.rel.add(at, '<', a)
                elif ib.ge0():
                    s.rel.add(at, '<=', a)
                if ib.lt0():
                    s.rel.add(a, '<', at)
                elif ib.le0():
                    s.rel.add(a, '<=', at)
            return at
        if isinstance(op, ast.Mult):
            if a == b:
                return s.new(I.square(ia), d=('mul', a, b))
            return s.new(I.mul(ia, ib), d=('mul', a, b))
        if isinstance(op, (ast.Div, ast.FloorDiv, ast.Mod)):
            ok = ib.nonzero()
            if not ok:
                # a sub-expression known nonzero via facts ('<','>' only)?
                db = s.defs.get(b)
                if db and db[0] == 'sub' and s.rel.possible(db[1], db[2]) <= {'<', '>'}:
                    ok = True
            self.sink(node, 'div', ok, f'divisor {ast.unparse(node.right)} in {ib}')
            if isinstance(op, ast.Div):
                q = I.div(ia, ib) if ib.nonzero() else I.div_nonzero_part(ia, ib)
                # quotient lemma: a / (a + c) with a >= 0 and c >= 0 lies in [0, 1] (wherever the divisor is non-zero)
                db = s.defs.get(b)
                if db and db[0] == 'add' and a in (db[1], db[2]) and not ia.nan:
                    c = db[2] if db[1] == a else db[1]
                    ic = s.iv(c)
                    if ia.ge0() and ic.ge0() and not ic.nan:
                        m = I.meet(Itv(q.lo, q.hi, q.lo_open, q.hi_open), Itv(0.0, 1.0, False, False))
                        q = Itv(m.lo, m.hi, m.lo_open, m.hi_open, q.nan, q.isint, m.empty)
                # shifted-quotient lemma: ((E + c)/E - p) / c  with E > 0 a constant, c > 0 and p >= 1 is < 1/E   [ (E+c)/E - p <= c/E ]
                # (the acceptance-rejection step of the Gamma generator for shape c < 1: its logarithm is then < -1)
                da = s.defs.get(a)
                if da and da[0] == 'sub' and ib.gt0() and not ib.nan:
                    dbb = s.defs.get(da[1])
                    ip_ = s.iv(da[2])
                    if dbb and dbb[0] == 'div' and not ip_.nan and ip_.lo >= 1.0:
                        dn, de = s.defs.get(dbb[1]), s.defs.get(dbb[2])
                        if dn and dn[0] == 'add' and de and de[0] == 'const' and isinstance(de[1], float) and de[1] > 0:
                            for (e2, c2) in ((dn[1], dn[2]), (dn[2], dn[1])):
                                d2 = s.defs.get(e2)
                                same_c = c2 == b or s.rel.possible(c2, b) == {'='}
                                if d2 and d2[0] == 'const' and d2[1] == de[1] and same_c:
                                    strict = ip_.lo > 1.0 or ip_.lo_open
                                    m = I.meet(Itv(q.lo, q.hi, q.lo_open, q.hi_open), Itv(-I.INF, 1.0 / de[1], False, strict))
                                    q = Itv(m.lo, m.hi, m.lo_open, m.hi_open, q.nan, q.isint, m.empty)
                return s.new(q, d=('div', a, b))
            return s.new(Itv(nan=ia.nan or ib.nan))
        if isinstance(op, ast.Pow):
            return self.pow(s, a, b, node)
        return s.new(FULLTOP)

    def pow(self, s, a, b, node):
        ia, ib = s.iv(a), s.iv(b)
        # 0 ** negative
        ok = True; why = ''
        if ia.contains(0.0) and not ib.ge0():
            ok = False; why = f'0 ** negative: base {ia}, exponent {ib}'
        if not ia.ge0() and not (ib.isint or (ib.is_point() and float(ib.lo).is_integer())):
            ok = False; why = f'negative base {ia} with non-integer exponent {ib}'
        self.sink(node, 'pow', ok, why)
        return s.new(I.powv(ia, ib), d=('pow', a, b))

    def ev_BinOp(self, st, node):
        out = []
        for (s, (a, b)) in self.ev_seq(st, [node.left, node.right]):
            r = self.binop(s, node.op, a, b, node)
            if isinstance(node.op, (ast.Div, ast.FloorDiv, ast.Mod)) and s.iv(r).is_bottom() and not s.iv(a).is_bottom() and not s.iv(b).is_bottom():
                continue        # the divisor is exactly zero: every execution raises here (recorded as a sink), none continues
            if a in s.num and b in s.num:
                s.num.add(r)    # float / int arithmetic yields float / int
            if isinstance(node.op, (ast.Mult, ast.Pow)) and (a in s.under or (b in s.under and isinstance(node.op, ast.Mult))):
                s.under.add(r)
            out.append((s, r))
        return out

    # ---- calls
    def ev_Call(self, st, node):
        fn = ast.unparse(node.func)
        f = node.func
        # self.method(...)
        if isinstance(f, ast.Attribute) and isinstance(f.value, ast.Name) and f.value.id == 'self':
            return self.call_self(st, node, f.attr)
        if isinstance(f, ast.Attribute) and isinstance(f.value, ast.Call) and ast.unparse(f.value.func) == 'super':
            self_cls, def_cls, _ = self.cur[-1]
            return self.call_args_then(st, node, lambda s, args, kw: self.call_method(s, self_cls, f.attr, args, kw, node, after=def_cls))
        if isinstance(f, ast.Attribute) and isinstance(f.value, ast.Name) and f.value.id in self.prog.classes \
                and node.args and isinstance(node.args[0], ast.Name) and node.args[0].id == 'self':
            self_cls = self.cur[-1][0]
            base = f.value.id
            def go(s, args, kw):
                ci, fnode = self.prog.resolve(base, f.attr)
                if fnode is None:
                    return [(s, s.new(FULLTOP))]
                return self.inline(s, self_cls, ci.name, fnode, args[1:], kw, node)
            return self.call_args_then(st, node, go)
        if fn.startswith('math.'):
            return self.call_args_then(st, node, lambda s, args, kw: [(s, self.math_call(s, fn[5:], args, node))])
        if fn in self.prog.funcs:
            return self.call_args_then(st, node, lambda s, args, kw: self.inline(s, '<module>', '<module>', self.prog.funcs[fn], args, kw, node))
        if fn in ('float',):
            return self.call_args_then(st, node, lambda s, args, kw: [(s, args[0] if args else s.new(FULLTOP))])
        if fn == 'int':
            def go(s, args, kw):
                iv = s.iv(args[0]) if args else FULLTOP
                if iv.isint:
                    return [(s, args[0])]
                return [(s, s.new(Itv(iv.lo, iv.hi, iv.lo_open, iv.hi_open, False, True) if iv.ge0() or iv.le0() else Itv(isint=True)))]
            return self.call_args_then(st, node, go)
        if fn == 'sum' and len(node.args) == 1 and isinstance(node.args[0], (ast.GeneratorExp, ast.ListComp)) and len(node.args[0].generators) == 1:
            # sum(<elt> for <name> in <iterable> [if ...]): the element is evaluated once with the loop variable an arbitrary
            # non-negative int (range / count) -- its sinks are recorded there; the sum of non-negative terms is non-negative
            comp = node.args[0]
            gen = comp.generators[0]
            out = []
            for (s0, _it) in self.ev(st, gen.iter):
                s1 = s0.fork()
                if isinstance(gen.target, ast.Name):
                    s1.env[gen.target.id] = s1.new(Itv(0.0, I.INF, False, True, isint=True))
                states = [s1]
                for cond in gen.ifs:
                    nxt = []
                    for sx in states:
                        nxt += self.assume(sx, cond, True)
                    states = nxt
                res = None
                for sx in states:
                    for (s2, a) in self.ev(sx, comp.elt):
                        iv = s2.iv(a)
                        res = iv if res is None else I.join(res, iv)
                if res is None or res.empty:
                    out.append((s0, s0.new(Itv(0.0, 0.0, False, False, False, True))))
                elif res.ge0() and not res.nan:
                    out.append((s0, s0.new(Itv(0.0, I.INF, False, True, False, res.isint))))
                elif res.le0() and not res.nan:
                    out.append((s0, s0.new(Itv(-I.INF, 0.0, True, False, False, res.isint))))
                else:
                    out.append((s0, s0.new(Itv(nan=res.nan, isint=res.isint))))
            return out
        if fn == 'abs':
            def go_abs(s, args, kw):
                a = args[0]
                iv = s.iv(a)
                if iv.empty or iv.ge0():
                    return [(s, a)]
                if iv.le0():
                    return [(s, s.new(I.neg(iv), d=('neg', a)))]
                # case split on the sign so that later facts about |x| refine x itself
                out = []
                s1 = s.fork()
                s1.val[a] = Itv(0.0, iv.hi, False, iv.hi_open, iv.nan, iv.isint).norm()
                out.append((s1, a))
                s2 = s
                neg_part = Itv(iv.lo, 0.0, iv.lo_open, True, False, iv.isint).norm()
                s2.val[a] = neg_part
                out.append((s2, s2.new(I.neg(neg_part), d=('neg', a))))
                return out
            return self.call_args_then(st, node, go_abs)
        if fn in ('max', 'min'):
            def go(s, args, kw):
                if len(args) == 2 and not kw and not (s.obj.get(args[0]) or s.obj.get(args[1])):
                    # min(a, b) is `b if b < a else a`, max(a, b) is `b if b > a else a` (so a NaN first argument is kept, a NaN second
                    # argument never chosen): the result IS one of the two values, by cases
                    a_, b_ = args
                    op = ast.Lt() if fn == 'min' else ast.Gt()
                    out = []
                    for sx in self.assume_rel(s.fork(), b_, op, a_, True):
                        out.append((sx, b_))
                    for sx in self.assume_rel(s.fork(), b_, op, a_, False):
                        out.append((sx, a_))
                    if out:
                        return out
                r = s.iv(args[0])
                first_nan = r.nan
                for a in args[1:]:
                    r = I.vmax(r, s.iv(a)) if fn == 'max' else I.vmin(r, s.iv(a))
                # Python's max/min return NaN only when the FIRST argument is NaN (comparisons with NaN are False)
                if not r.empty:
                    r = Itv(r.lo, r.hi, r.lo_open, r.hi_open, first_nan, r.isint)
                    if not first_nan:
                        # a NaN later argument is never selected: the result is then the hull of the non-NaN candidates
                        pass
                return [(s, s.new(r))]
            return self.call_args_then(st, node, go)
        if fn == 'round':
            return self.call_args_then(st, node, lambda s, args, kw: [(s, s.new(Itv(isint=True)))])
        if fn == 'len':
            def go_len(s, args, kw):
                o = s.obj.get(args[0]) if args else None
                if o and o[0] == 'tuple':
                    return [(s, s.new(I.const(len(o[1])), d=('const', len(o[1]))))]           # a literal tuple / list: its length is known
                return [(s, s.new(Itv(0.0, I.INF, False, True, isint=True)))]
            return self.call_args_then(st, node, go_len)
        if fn == 'isinstance':
            return self.call_args_then(st, node, lambda s, args, kw: [(s, s.new(I.BOOL))])
        if fn == 'range':
            return self.call_args_then(st, node, lambda s, args, kw: [(s, s.new(FULLTOP, obj=('range', tuple(args))))])
        if fn in self.prog.classes:
            return self.call_args_then(st, node, lambda s, args, kw: [(s, s.new(FULLTOP, obj=('inst', fn)))])
        if fn == 'NormalDist':
            return self.call_args_then(st, node, lambda s, args, kw: [(s, s.new(FULLTOP, obj=('inst', 'NormalDist')))])
        if isinstance(f, ast.Attribute):
            # obj.method(...)
            def go(s, args, kw, recv):
                o = s.obj.get(recv)
                if f.attr == 'inv_cdf':
                    p = s.iv(args[0])
                    ok = p.gt0() and (p.hi < 1.0 or (p.hi == 1.0 and p.hi_open))
                    self.sink(node, 'inv_cdf', ok, f'p = {p} not within (0,1)')
                    return [(s, s.new(I.TOP))]
                if f.attr == 'next_float':
                    return [(s, s.new(I.UNIT_HALFOPEN, d=('uniform',)))]
                if f.attr == 'next_bool':
                    return [(s, s.new(I.BOOL))]
                if f.attr == 'next_int' and len(args) == 2:
                    lo, hi = s.iv(args[0]), s.iv(args[1])
                    a = s.new(Itv(lo.lo, hi.hi, lo.lo_open, hi.hi_open, False, True))
                    s.rel.add(args[0], '<=', a); s.rel.add(a, '<=', args[1])
                    return [(s, a)]
                if f.attr == 'draw' and o and o[0] == 'inst' and o[1] in self.prog.classes:
                    return [(s, s.new(self.draw_summary(o[1]), d=('draw', o[1])))]
                if f.attr == 'random':
                    return [(s, s.new(I.UNIT_HALFOPEN, d=('uniform',)))]
                return [(s, s.new(FULLTOP))]
            out = []
            for (s, (recv,)) in self.ev_seq(st, [f.value]):
                for (s2, atoms) in self.ev_seq(s, list(node.args)):
                    out += go(s2, atoms, {}, recv)
            return out
        return self.call_args_then(st, node, lambda s, args, kw: [(s, s.new(FULLTOP))])

    def call_args_then(self, st, node, k):
        out = []
        kwn = [kw.arg for kw in node.keywords]
        for (s, atoms) in self.ev_seq(st, list(node.args) + [kw.value for kw in node.keywords]):
            args = atoms[:len(node.args)]
            kws = dict(zip(kwn, atoms[len(node.args):]))
            out += k(s, args, kws)
        return out

    def call_self(self, st, node, mname):
        self_cls = self.cur[-1][0]
        if mname in ('fire', 'fire_timed', 'fire_event', 'fire_timed_event', 'add_listener', 'remove_listener'):
            return self.call_args_then(st, node, lambda s, args, kw: [(s, s.new(FULLTOP, obj=('none',)))])
        if mname == 'has_listeners':
            return [(st, st.new(I.BOOL))]
        return self.call_args_then(st, node, lambda s, args, kw: self.call_method(s, self_cls, mname, args, kw, node))

    def call_method(self, st, self_cls, mname, args, kw, node, after=None, free_params=False):
        ci, fnode = self.prog.resolve(self_cls, mname, after=after)
        if fnode is None:
            return [(st, st.new(FULLTOP))]
        return self.inline(st, self_cls, ci.name, fnode, args, kw, node, free_params=free_params)

    def inline(self, st, self_cls, def_cls, fnode, args, kw, node, free_params=False):
        if len(self.cur) >= self.max_depth or sum(1 for c in self.cur if c[2] == fnode.name and c[1] == def_cls) >= 2:
            self.notes.append(f'depth limit at {def_cls}.{fnode.name}')
            return [(st, st.new(FULLTOP))]
        saved_env = st.env
        s = st
        s.env = {}
        params = [a.arg for a in fnode.args.args]
        if params and params[0] in ('self', 'cls'):
            params = params[1:]
        defaults = fnode.args.defaults
        dmap = {}
        allp = [a.arg for a in fnode.args.args]
        for p, d in zip(allp[len(allp) - len(defaults):], defaults):
            dmap[p] = d
        for a in fnode.args.kwonlyargs:
            pass
        for i, p in enumerate(params):
            if i < len(args):
                s.env[p] = args[i]
            elif p in kw:
                s.env[p] = kw[p]
            elif p in dmap and not free_params:
                (s2, a), = self.ev(s, dmap[p])[:1]
                s.env[p] = a
            else:
                ann = next((x.annotation for x in fnode.args.args if x.arg == p), None)
                if ann is not None and ast.unparse(ann) == 'bool':
                    s.env[p] = s.new(I.BOOL)
                elif ann is not None and ast.unparse(ann) == 'int':
                    s.env[p] = s.new(Itv(isint=True))
                else:
                    s.env[p] = s.new(self.param_top())
        for a, d in zip(fnode.args.kwonlyargs, fnode.args.kw_defaults):
            if a.arg in kw:
                s.env[a.arg] = kw[a.arg]
            elif d is not None:
                (s2, at), = self.ev(s, d)[:1]
                s.env[a.arg] = at
            else:
                s.env[a.arg] = s.new(self.param_top())
        if len(self.cur) <= 1:
            self.entry_params = dict(s.env)         # atoms of the entry point's parameters (for rules that inspect the result DAG)
        self.cur.append((self_cls, def_cls, fnode.name))
        flow = self.block([s], fnode.body)
        self.cur.pop()
        out = []
        for (rs, ra) in flow.returns:
            rs.env = dict(saved_env)
            out.append((rs, ra))
        for ns in flow.normal:
            ns.env = dict(saved_env)
            out.append((ns, ns.new(FULLTOP, obj=('none',))))
        if len(out) > self.cap:
            js = join_states([o[0] for o in out])
            iv = None
            for (rs, ra) in out:
                iv = rs.iv(ra) if iv is None else I.join(iv, rs.iv(ra))
            out = [(js, js.new(iv))]
        return out

    def param_top(self):
        return I.TOP if self.param_finite else FULLTOP

    def math_call(self, s, name, args, node):
        iv = s.iv(args[0]) if args else FULLTOP
        if name == 'log':
            ok = iv.gt0()
            self.sink(node, 'log', ok, f'argument {ast.unparse(node.args[0])} in {iv}')
            return s.new(I.log(iv), d=('log', args[0]))
        if name == 'log1p':
            ok = not iv.empty and not iv.nan and (iv.lo > -1.0 or (iv.lo == -1.0 and iv.lo_open))
            self.sink(node, 'log1p', ok, f'argument {ast.unparse(node.args[0])} in {iv}')
            return s.new(I.log1p(iv), d=('log1p', args[0]))
        if name == 'sqrt':
            ok = iv.ge0()
            self.sink(node, 'sqrt', ok, f'argument in {iv}')
            return s.new(I.sqrt(iv), d=('sqrt', args[0]))
        if name == 'exp':
            a_ = s.new(I.exp(iv), d=('exp', args[0]))
            if iv.lo == -I.INF or iv.lo < -700.0:
                s.under.add(a_)           # exp of a large negative number is 0.0
            return a_
        if name == 'floor' or name == 'ceil':
            ok = iv.finite() and not iv.nan
            self.sink(node, name, ok, f'argument in {iv}')
            return s.new(I.floor(iv) if name == 'floor' else I.neg(I.floor(I.neg(iv))))
        if name == 'pow':
            return self.pow(s, args[0], args[1], node)
        if name in ('isnan', 'isinf'):
            return s.new(I.BOOL, d=(name, args[0]))
        if name == 'erf':
            return s.new(Itv(-1.0, 1.0, False, False, iv.nan))
        if name == 'copysign' and len(args) == 2:
            # |x| with the sign of y: a NaN only when x is one; the magnitude is that of x
            if iv.empty:
                return s.new(I.NAN if iv.nan else I.BOTTOM)
            m = max(abs(iv.lo), abs(iv.hi))
            i2 = s.iv(args[1])
            lo, hi = -m, m
            if not i2.empty and not i2.nan and (i2.lo > 0 or (i2.lo == 0 and i2.lo_open)):
                lo = min(abs(iv.lo), abs(iv.hi)) if (iv.lo > 0 or iv.hi < 0) else 0.0
            elif not i2.empty and not i2.nan and (i2.hi < 0 or (i2.hi == 0 and i2.hi_open)):
                hi = -(min(abs(iv.lo), abs(iv.hi)) if (iv.lo > 0 or iv.hi < 0) else 0.0)
            return s.new(Itv(lo, hi, False, False, iv.nan, iv.isint))
        if name == 'fabs':
            m = max(abs(iv.lo), abs(iv.hi)) if not iv.empty else 0.0
            return s.new(Itv(0.0, m, False, False, iv.nan, False, iv.empty))
        if name in ('lgamma', 'gamma'):
            ok = iv.gt0()
            self.sink(node, name, ok, f'argument in {iv}')
            return s.new(Itv(0.0, I.INF, True, True) if name == 'gamma' else I.TOP)
        if name == 'factorial':
            ok = iv.ge0() and iv.isint
            self.sink(node, name, ok, f'argument in {iv}')
            return s.new(Itv(1.0, I.INF, False, True, isint=True))
        if name == 'comb':
            i2 = s.iv(args[1])
            ok = iv.ge0() and i2.ge0()
            self.sink(node, name, ok, f'arguments in {iv}, {i2}')
            return s.new(Itv(0.0, I.INF, False, True, isint=True))
        return s.new(FULLTOP)

    # ------------------------------------------------------------- draw summaries
    def draw_summary(self, cname):
        if cname in self.draw_summaries:
            return self.draw_summaries[cname] or FULLTOP
        self.draw_summaries[cname] = None
        saved = (self.record, self.cur)
        self.record = False
        self.cur = []
        try:
            inv = self.class_invariant(cname)
            st = self.instantiate(cname, inv)
            self.cur = [(cname, cname, '<summary>')]
            res = self.call_method(st, cname, 'draw', [], {}, None)
            iv = None
            for (rs, ra) in res:
                iv = rs.iv(ra) if iv is None else I.join(iv, rs.iv(ra))
            self.draw_summaries[cname] = iv or FULLTOP
        finally:
            self.record, self.cur = saved
        return self.draw_summaries[cname]

    # ------------------------------------------------------------- conditions
    def assume(self, st, node, truth):
        """-> list of states in which node evaluates to truth (refined)."""
        if isinstance(node, ast.BoolOp):
            is_and = isinstance(node.op, ast.And)
            if is_and == truth:          # all must hold (and/True) or all must fail (or/False)
                states = [st]
                for v in node.values:
                    nxt = []
                    for s in states:
                        nxt += self.assume(s, v, truth)
                    states = nxt
                return states
            # disjunction: first i-1 are !truth... short-circuit semantics
            out = []
            prefix = [st]
            for v in node.values:
                nxt_prefix = []
                for s in prefix:
                    out += self.assume(s.fork(), v, truth)
                    nxt_prefix += self.assume(s.fork(), v, not truth)
                prefix = nxt_prefix
            return out
        if isinstance(node, ast.UnaryOp) and isinstance(node.op, ast.Not):
            return self.assume(st, node.operand, not truth)
        if isinstance(node, ast.Compare):
            return self.assume_compare(st, node, truth)
        if isinstance(node, ast.Call) and ast.unparse(node.func) in ('math.isnan', 'math.isinf'):
            out = []
            for (s, (a,)) in self.ev_seq(st, node.args[:1]):
                iv = s.iv(a)
                if ast.unparse(node.func) == 'math.isnan':
                    if truth:
                        if not iv.nan:
                            continue
                        s.val[a] = I.NAN
                    else:
                        if iv.empty and iv.nan:
                            continue
                        s.val[a] = Itv(iv.lo, iv.hi, iv.lo_open, iv.hi_open, False, iv.isint, iv.empty)
                    out.append(s)
                else:
                    if truth:
                        if iv.finite():
                            continue
                        out.append(s)
                    else:
                        m = Itv(iv.lo, iv.hi, iv.lo_open or math.isinf(iv.lo), iv.hi_open or math.isinf(iv.hi), iv.nan, iv.isint, iv.empty)
                        s.val[a] = m
                        out.append(s)
            return out
        if isinstance(node, ast.Call) and ast.unparse(node.func) == 'isinstance' and len(node.args) == 2:
            tnames = {ast.unparse(x) for x in (node.args[1].elts if isinstance(node.args[1], ast.Tuple) else [node.args[1]])}
            if len(tnames) == 1 and next(iter(tnames)) in self.prog.classes and isinstance(node.args[0], ast.Name):
                out = []
                for (s, (a,)) in self.ev_seq(st, node.args[:1]):
                    o = s.obj.get(a)
                    if truth and o is None and node.args[0].id in s.env:
                        s.obj[a] = ('inst', next(iter(tnames)))
                    if o is not None and o[0] in ('none', 'str', 'tuple') and truth:
                        continue
                    out.append(s)
                return out
            if tnames & {'float', 'int'}:
                out = []
                for (s, (a,)) in self.ev_seq(st, node.args[:1]):
                    o = s.obj.get(a)
                    if o is None:
                        if a in s.num and {'float', 'int'} <= tnames:
                            if truth:
                                out.append(s)           # known to be a float / int
                        elif self.strict_types:
                            # type-exact mode (used to decide whether a type refusal can still happen): untyped values go both ways
                            if truth and {'float', 'int'} <= tnames:
                                s.num.add(a)
                            out.append(s)
                        # values of the analysed numeric programs are numbers (assumption, listed in the evidence)
                        elif truth:
                            s.num.add(a) if {'float', 'int'} <= tnames else None
                            out.append(s)
                    else:
                        if not truth:
                            out.append(s)
                return out
        # generic truthiness
        out = []
        for (s, a) in self.ev(st, node):
            o = s.obj.get(a)
            if o and o[0] == 'none':
                if not truth:
                    out.append(s)
                continue
            if o and o[0] in ('inst', 'stream', 'tuple', 'str'):
                out.append(s)       # unknown truthiness of objects: keep both
                continue
            iv = s.iv(a)
            if truth:
                if iv.is_point() and iv.lo == 0.0:
                    continue
                if iv.isint and iv.lo >= 0 and iv.hi <= 1:
                    s.val[a] = I.TRUE
                out.append(s)
            else:
                if not iv.contains(0.0) and not iv.nan and not iv.empty:
                    # definitely truthy
                    if iv.lo == -I.INF and iv.hi == I.INF:
                        pass
                    else:
                        continue
                if iv.isint and iv.lo >= 0 and iv.hi <= 1:
                    s.val[a] = I.FALSE
                out.append(s)
        return out

    def assume_compare(self, st, node, truth):
        operands = [node.left] + list(node.comparators)
        out = []
        for (s, atoms) in self.ev_seq(st, operands):
            pairs = list(zip(atoms[:-1], node.ops, atoms[1:]))
            if truth:
                states = [s]
                for (a, op, b) in pairs:
                    nxt = []
                    for x in states:
                        nxt += self.assume_rel(x, a, op, b, True)
                    states = nxt
                out += states
            else:
                prefix = [s]
                for (a, op, b) in pairs:
                    nxt_prefix = []
                    for x in prefix:
                        out += self.assume_rel(x.fork(), a, op, b, False)
                        nxt_prefix += self.assume_rel(x.fork(), a, op, b, True)
                    prefix = nxt_prefix
        return out

    OPNAME = {ast.Lt: '<', ast.LtE: '<=', ast.Gt: '>', ast.GtE: '>=', ast.Eq: '==', ast.NotEq: '!='}
    NEGATE = {'<': '>=', '<=': '>', '>': '<=', '>=': '<', '==': '!=', '!=': '=='}

    def assume_rel(self, s, a, op, b, truth):
        opn = self.OPNAME.get(type(op))
        oa, ob = s.obj.get(a), s.obj.get(b)
        if opn is None or isinstance(op, (ast.Is, ast.IsNot, ast.In, ast.NotIn)):
            # identity / membership: handle None tests
            if isinstance(op, (ast.Is, ast.IsNot)) or True:
                isnone_a = oa and oa[0] == 'none'
                isnone_b = ob and ob[0] == 'none'
                if isinstance(op, (ast.Is, ast.IsNot)) and (isnone_a or isnone_b):
                    other = ob if isnone_a else oa
                    eq = True if (isnone_a and isnone_b) else (False if other and other[0] != 'none' else None)
                    if eq is None and other is None:
                        # an atom whose interval has been narrowed went through arithmetic / an ordering test: it is a number, not None
                        oiv = s.iv(b if isnone_a else a)
                        if not oiv.nan or oiv.lo > -I.INF or oiv.hi < I.INF:
                            eq = False
                    want = truth if isinstance(op, ast.Is) else (not truth)
                    if eq is None or eq == want:
                        return [s]
                    return []
                if isinstance(op, (ast.Is, ast.IsNot)) and not oa and not ob:
                    # `x is <NaN constant>`: true only for a NaN (that very object); false says nothing -- another NaN object is not identical
                    for (u, v) in ((a, b), (b, a)):
                        iu = s.iv(u)
                        if iu.nan and iu.empty:
                            if truth == isinstance(op, ast.Is):
                                if not s.iv(v).nan:
                                    return []
                                s.val[v] = I.NAN
                            return [s]
            return [s]
        if (oa and oa[0] == 'none') or (ob and ob[0] == 'none'):
            # == None / != None
            both = (oa and oa[0] == 'none') and (ob and ob[0] == 'none')
            other = ob if (oa and oa[0] == 'none') else oa
            eq = True if both else (False if other else None)
            if opn in ('==', '!='):
                want = truth if opn == '==' else (not truth)
                if eq is None or eq == want:
                    return [s]
                return []
            return [s]
        ia, ib = s.iv(a), s.iv(b)
        eff = opn if truth else self.NEGATE[opn]
        nanposs = ia.nan or ib.nan
        # possible orderings from intervals and facts
        poss = s.rel.possible(a, b)
        ivposs = set()
        if not ia.empty and not ib.empty:
            if ia.lo < ib.hi or (ia.lo == ib.hi and not (ia.lo_open or ib.hi_open) and False):
                ivposs.add('<')
            if ia.lo < ib.hi:
                ivposs.add('<')
            if ia.hi > ib.lo:
                ivposs.add('>')
            m = I.meet(Itv(ia.lo, ia.hi, ia.lo_open, ia.hi_open), Itv(ib.lo, ib.hi, ib.lo_open, ib.hi_open))
            if not m.empty:
                ivposs.add('=')
        poss &= ivposs
        sat = {'<': {'<'}, '<=': {'<', '='}, '>': {'>'}, '>=': {'>', '='}, '==': {'='}, '!=': {'<', '>'}}[eff]
        feasible_order = bool(poss & sat)
        if truth:
            # comparison true => no NaN involved (except != which is true with NaN)
            if not feasible_order and not (opn == '!=' and nanposs):
                return []
        else:
            # comparison false: either ordering in complement, or NaN involved (except for !=)
            if not feasible_order and not (nanposs and opn != '!='):
                return []
        if feasible_order:
            # refine intervals (non-NaN parts) and add the fact
            def bound(iv_other, kind):
                if kind == 'upper_strict':
                    return Itv(-I.INF, iv_other.hi, False, True)
                if kind == 'upper':
                    return Itv(-I.INF, iv_other.hi, False, iv_other.hi_open)
                if kind == 'lower_strict':
                    return Itv(iv_other.lo, I.INF, True, False)
                if kind == 'lower':
                    return Itv(iv_other.lo, I.INF, iv_other.lo_open, False)
            keepnan = (not truth) and opn != '!=' or (truth and opn == '!=')
            def ref(atom, biv):
                cur = s.iv(atom)
                m = I.meet(Itv(cur.lo, cur.hi, cur.lo_open, cur.hi_open, False, cur.isint, cur.empty), Itv(biv.lo, biv.hi, biv.lo_open, biv.hi_open))
                s.val[atom] = Itv(m.lo, m.hi, m.lo_open, m.hi_open, cur.nan and keepnan, cur.isint, m.empty).norm()
                if s.val[atom] != cur and not s.val[atom].is_bottom():
                    s.propagate_from(atom)
                # a fact about -u is a fact about u
                d = s.defs.get(atom)
                if d and d[0] == 'neg' and not s.val[atom].empty:
                    cu = s.iv(d[1])
                    mu = I.meet(Itv(cu.lo, cu.hi, cu.lo_open, cu.hi_open, False, cu.isint, cu.empty), I.neg(Itv(m.lo, m.hi, m.lo_open, m.hi_open)))
                    s.val[d[1]] = Itv(mu.lo, mu.hi, mu.lo_open, mu.hi_open, cu.nan and keepnan, cu.isint, mu.empty).norm()
            if eff == '<':
                ref(a, bound(ib, 'upper_strict')); ref(b, bound(ia, 'lower_strict'))
            elif eff == '<=':
                ref(a, bound(ib, 'upper')); ref(b, bound(ia, 'lower'))
            elif eff == '>':
                ref(a, bound(ib, 'lower_strict')); ref(b, bound(ia, 'upper_strict'))
            elif eff == '>=':
                ref(a, bound(ib, 'lower')); ref(b, bound(ia, 'upper'))
            elif eff == '==':
                ref(a, Itv(ib.lo, ib.hi, ib.lo_open, ib.hi_open)); ref(b, Itv(ia.lo, ia.hi, ia.lo_open, ia.hi_open))
            elif eff == '!=':
                # endpoint exclusion when the other side is a point
                for (x, other) in ((a, ib), (b, ia)):
                    if other.is_point():
                        cur = s.iv(x)
                        if not cur.empty:
                            if cur.lo == other.lo and not cur.lo_open:
                                s.val[x] = Itv(cur.lo, cur.hi, True, cur.hi_open, cur.nan, cur.isint).norm()
                            cur = s.iv(x)
                            if not cur.empty and cur.hi == other.lo and not cur.hi_open:
                                s.val[x] = Itv(cur.lo, cur.hi, cur.lo_open, True, cur.nan, cur.isint).norm()
            s.rel.add(a, eff, b)
            # a comparison of a difference with zero is a comparison of its operands: (x - y) > 0  =>  x > y
            for (u, other, e2) in ((a, s.iv(b), eff), (b, s.iv(a), {'<': '>', '<=': '>=', '>': '<', '>=': '<=', '==': '==', '!=': '!='}[eff])):
                du = s.defs.get(u)
                if du and du[0] == 'sub' and other.is_point() and other.lo == 0.0:
                    s.rel.add(du[1], e2, du[2])
            if (s.iv(a).is_bottom() and not s.iv(a).nan) or (s.iv(b).is_bottom() and not s.iv(b).nan):
                if not keepnan:
                    return []
        return [s]

    # ------------------------------------------------------------- statements
    def block(self, states, stmts):
        flow = Flow(normal=list(states))
        for stmt in stmts:
            if not flow.normal:
                break
            if len(flow.normal) > self.cap:
                flow.normal = [join_states(flow.normal)]
            cur = flow.normal
            flow.normal = []
            for s in cur:
                f = self.stmt(s, stmt)
                flow.normal += f.normal
                flow.returns += f.returns
                flow.breaks += f.breaks
                flow.conts += f.conts
        return flow

    def stmt(self, st, node):
        m = getattr(self, 'st_' + type(node).__name__, None)
        if m is None:
            return Flow(normal=[st])
        return m(st, node)

    def st_Expr(self, st, node):
        if isinstance(node.value, ast.Constant):
            return Flow(normal=[st])
        return Flow(normal=[s for (s, a) in self.ev(st, node.value)])

    def st_Pass(self, st, node):
        return Flow(normal=[st])

    def st_Return(self, st, node):
        if node.value is None:
            return Flow(returns=[(st, st.new(FULLTOP, obj=('none',)))])
        return Flow(returns=list(self.ev(st, node.value)))

    def st_Raise(self, st, node):
        if self.cur:
            self.reached_raises.add((self.cur[-1][1], self.cur[-1][2], node.lineno))
        # an explicit range refusal inside a module-level helper (erf_inv, beta) reached from the analysed entry point
        if self.record_raises and self.cur and self.cur[-1][0] == '<module>':
            self.sink(node, 'raise', False, f'explicit `{ast.unparse(node)[:60]}` of {self.cur[-1][2]}() is reachable with these arguments')
        return Flow()

    def st_Break(self, st, node):
        return Flow(breaks=[st])

    def st_Continue(self, st, node):
        return Flow(conts=[st])

    def assign_to(self, s, target, atom):
        if isinstance(target, ast.Name):
            s.env[target.id] = atom
        elif isinstance(target, ast.Attribute) and isinstance(target.value, ast.Name) and target.value.id == 'self':
            if target.attr in s.fld:
                s.prev_fld = dict(getattr(s, 'prev_fld', {}))
                s.prev_fld[target.attr] = s.fld[target.attr]
            s.fld[target.attr] = atom
            # accumulator axioms are facts about the field at all times, not only at method boundaries
            if self.axioms and self.cur:
                for c in self.prog.mro(self.cur[-1][0]):
                    ax = self.axioms.get(c, {}).get(target.attr)
                    if ax is not None:
                        cur = s.iv(atom)
                        m = I.meet(Itv(cur.lo, cur.hi, cur.lo_open, cur.hi_open, False, cur.isint, cur.empty), ax)
                        s.fld[target.attr] = s.new(Itv(m.lo, m.hi, m.lo_open, m.hi_open, cur.nan and ax.nan, cur.isint, m.empty),
                                                   d=s.defs.get(atom))
                        break
        elif isinstance(target, ast.Tuple):
            o = s.obj.get(atom)
            for i, t in enumerate(target.elts):
                if o and o[0] == 'tuple' and i < len(o[1]):
                    self.assign_to(s, t, o[1][i])
                else:
                    self.assign_to(s, t, s.new(FULLTOP))

    def st_Assign(self, st, node):
        out = []
        for (s, a) in self.ev(st, node.value):
            for t in node.targets:
                self.assign_to(s, t, a)
            out.append(s)
        return Flow(normal=out)

    def st_AnnAssign(self, st, node):
        if node.value is None:
            return Flow(normal=[st])
        out = []
        for (s, a) in self.ev(st, node.value):
            self.assign_to(s, node.target, a)
            out.append(s)
        return Flow(normal=out)

    def st_AugAssign(self, st, node):
        out = []
        load = ast.copy_location(ast.parse(ast.unparse(node.target), mode='eval').body, node)
        for (s, (a, b)) in self.ev_seq(st, [load, node.value]):
            r = self.binop(s, node.op, a, b, node_as_binop(node))
            self.assign_to(s, node.target, r)
            out.append(s)
        return Flow(normal=out)

    def st_If(self, st, node):
        flow = Flow()
        t_states = self.assume(st.fork(), node.test, True)
        f_states = self.assume(st.fork(), node.test, False)
        if t_states:
            f = self.block(t_states, node.body)
            flow.normal += f.normal; flow.returns += f.returns; flow.breaks += f.breaks; flow.conts += f.conts
        if f_states:
            if node.orelse:
                f = self.block(f_states, node.orelse)
                flow.normal += f.normal; flow.returns += f.returns; flow.breaks += f.breaks; flow.conts += f.conts
            else:
                flow.normal += f_states
        return flow

    def summary(self, s):
        d = {}
        for n, a in s.env.items():
            d[('v', n)] = s.iv(a)
        for n, a in s.fld.items():
            d[('f', n)] = s.iv(a)
        return d

    def loop(self, st, test, body, orelse, node):
        flow = Flow()
        head = st
        prev = None
        exits = []
        # the body certainly runs at least once when the entry state cannot falsify the test (s = 1.0; while s >= 1.0: ...)
        at_least_once = test is not None and not self.assume(st.fork(), test, False)
        for it in range(8):
            body_in = self.assume(head.fork(), test, True) if test is not None else [head.fork()]
            f = self.block(body_in, body) if body_in else Flow()
            back = f.normal + f.conts
            cand = join_states([st.fork()] + [b for b in back])
            # widening by name
            summ = self.summary(cand)
            if prev is not None:
                stable = True
                for k, v in summ.items():
                    pv = prev.get(k)
                    if pv is None:
                        stable = False; continue
                    if not I.leq(v, pv):
                        stable = False
                        if it >= 2:
                            w = I.widen(pv, v)
                            atom = cand.env.get(k[1]) if k[0] == 'v' else cand.fld.get(k[1])
                            na = cand.new(w)
                            if k[0] == 'v':
                                cand.env[k[1]] = na
                            else:
                                cand.fld[k[1]] = na
                if stable:
                    head = cand
                    break
            prev = self.summary(cand)
            head = cand
        self._absorbing_check(node, head, test, body)
        # final pass from stable head to collect exits/returns (and record sinks)
        body_in = self.assume(head.fork(), test, True) if test is not None else [head.fork()]
        f = self.block(body_in, body) if body_in else Flow()
        flow.returns += f.returns
        if at_least_once:
            after = join_states(list(f.normal + f.conts))
            exit_states = (self.assume(after.fork(), test, False) if after is not None else []) + f.breaks
        else:
            exit_states = (self.assume(head.fork(), test, False) if test is not None else [head.fork()]) + f.breaks
        if test is None and not isinstance(node, ast.For):
            exit_states = f.breaks
        flow.normal = exit_states
        flow.breaks_seen = list(f.breaks)
        return flow

    def _absorbing_check(self, node, head, test, body):
        """A loop whose progress is `v *= u` with 0 <= u < 1 and v >= 0 drives v to 0.0 (floating point underflow), where it stays: the loop
        must be certain to end from v == 0.0.  Quantities that are positive only mathematically (exp of a large negative number and
        products of such) count as possibly 0.0 here."""
        if not self.record:
            return
        endless_for = isinstance(node, ast.For) and isinstance(node.iter, ast.Call) and ast.unparse(node.iter.func) in ('itertools.count', 'count')
        if not (isinstance(node, ast.While) or endless_for):
            return                    # a for-loop over a finite iterable ends by itself
        cands = set()
        for x in ast.walk(ast.Module(body=list(body), type_ignores=[])):
            if isinstance(x, ast.AugAssign) and isinstance(x.op, ast.Mult) and isinstance(x.target, ast.Name):
                cands.add(x.target.id)
            elif isinstance(x, ast.Assign) and len(x.targets) == 1 and isinstance(x.targets[0], ast.Name) and isinstance(x.value, ast.BinOp) \
                    and isinstance(x.value.op, ast.Mult) and any(isinstance(o, ast.Name) and o.id == x.targets[0].id for o in (x.value.left, x.value.right)):
                cands.add(x.targets[0].id)
        for v in sorted(cands):
            if v not in head.env or not head.iv(head.env[v]).ge0() or head.iv(head.env[v]).nan:
                continue
            # is the factor a unit-interval quantity?  run the body once from the head and look at v afterwards: it must not grow
            s0 = head.fork()
            zero = s0.new(I.const(0.0), d=('const', 0.0))
            s0.env[v] = zero
            for a in list(s0.under):
                iv = s0.iv(a)
                if not iv.empty and iv.lo == 0.0 and iv.lo_open:
                    s0.val[a] = Itv(0.0, iv.hi, False, iv.hi_open, iv.nan, iv.isint)
            saved = self.record
            self.record = False
            try:
                ins = self.assume(s0, test, True) if test is not None else [s0]
                f = self.block(ins, body) if ins else Flow()
            finally:
                self.record = saved
            stuck = [x for x in (f.normal + f.conts) if v in x.env and x.iv(x.env[v]).is_point() and x.iv(x.env[v]).lo == 0.0]
            self.sink(node, 'loop', not stuck,
                      f'once `{v}` has reached 0.0 (underflow of the product) it stays 0.0 and the exit test is not certain there: the loop need not end')

    def st_While(self, st, node):
        test = node.test
        if isinstance(test, ast.Constant) and test.value is True:
            return self.loop(st, None, node.body, node.orelse, node)
        return self.loop(st, test, node.body, node.orelse, node)

    def _concrete_items(self, s, it):
        """the atoms a for-loop binds, in order, when the iterable is a range with known bounds or a literal tuple (at most 32)"""
        o = s.obj.get(it)
        if o and o[0] == 'tuple' and len(o[1]) <= 32:
            return list(o[1])
        if o and o[0] == 'range' and 1 <= len(o[1]) <= 3 and all(s.iv(a).is_point() and float(s.iv(a).lo).is_integer() for a in o[1]):
            try:
                r = range(*[int(s.iv(a).lo) for a in o[1]])
            except ValueError:
                return None
            if len(r) <= 32:
                return [s.new(I.const(k), d=('const', k)) for k in r]
        return None

    def st_For(self, st, node):
        out = Flow()
        for (s, it) in self.ev(st, node.iter):
            items = self._concrete_items(s, it) if isinstance(node.target, ast.Name) and not node.orelse else None
            if items is not None:
                # a loop over a known, short sequence is run item by item
                states = [s]
                for a in items:
                    nxt = []
                    for x in states:
                        x.env[node.target.id] = a
                    f = self.block(states, node.body)
                    out.returns += f.returns
                    out.normal += f.breaks
                    nxt = f.normal + f.conts
                    if len(nxt) > self.cap:
                        nxt = [join_states(nxt)]
                    states = nxt
                    if not states:
                        break
                out.normal += states
                continue
            if isinstance(node.target, ast.Name):
                s.env[node.target.id] = s.new(Itv(0.0, I.INF, False, True, isint=True))
            f = self.loop(s, None, node.body, node.orelse, node)
            if isinstance(node.iter, ast.Call) and ast.unparse(node.iter.func) in ('itertools.count', 'count') :
                f.normal = list(f.breaks_seen)      # an endless iterator: the loop ends only by break / return
            out.normal += f.normal; out.returns += f.returns
        return out

    def st_Try(self, st, node):
        # prototype: execute body with recording disabled for caught arithmetic errors
        caught = set()
        for h in node.handlers:
            if h.type is None:
                caught.add('*')
            else:
                caught |= {ast.unparse(h.type)}
        saved = self.record
        if caught & {'*', 'Exception', 'ZeroDivisionError', 'ValueError', 'ArithmeticError', 'BaseException'}:
            self.record = False
        before = getattr(self, 'unsafe_events', 0)
        f = self.block([st.fork()], node.body)
        self.record = saved
        raised = getattr(self, 'unsafe_events', 0) > before
        ARITH = {'ZeroDivisionError', 'ValueError', 'ArithmeticError', 'OverflowError', 'FloatingPointError'}
        for h in node.handlers:
            names = set()
            if h.type is not None:
                names = {ast.unparse(x) for x in (h.type.elts if isinstance(h.type, ast.Tuple) else [h.type])}
            if names and names <= ARITH and not raised:
                continue            # no arithmetic sink in the body can fail in this state: the handler is unreachable
            hf = self.block([st.fork()], h.body)
            f.normal += hf.normal; f.returns += hf.returns
        if node.finalbody:
            f2 = self.block(f.normal, node.finalbody)
            f.normal = f2.normal; f.returns += f2.returns
        return f

    # ------------------------------------------------------------- class invariants
    def field_writers(self, cname):
        out = set()
        for c in self.prog.mro(cname):
            ci = self.prog.classes.get(c)
            if not ci:
                continue
            for mn, m in ci.methods.items():
                for n in ast.walk(m):
                    if isinstance(n, ast.Attribute) and isinstance(n.ctx, ast.Store) and isinstance(n.value, ast.Name) and n.value.id == 'self':
                        out.add(mn)
        return out

    def instantiate(self, cname, inv):
        st = State()
        atoms = {}
        for f, (iv, obj) in inv['fields'].items():
            if obj is not None and obj[0] == 'seqiv':
                # a list / tuple field: one atom stands for every element
                obj = ('seq', st.new(obj[1] if obj[1] is not None else I.BOTTOM))      # None: the sequence is always empty, a read cannot happen
            a = st.new(iv, obj=obj)
            st.fld[f] = a
            atoms[f] = a
            if f in inv.get('num', ()):
                st.num.add(a)
            if f in inv.get('under', ()):
                st.under.add(a)
        for (f, op, g) in inv['facts']:
            st.rel.add(atoms[f], op, atoms[g])
        return st

    def collect_inv(self, states, old=None, widen=False):
        fields = {}
        names = set()
        for s in states:
            names |= set(s.fld)
        for f in names:
            iv = None; obj = 'unset'
            seq_iv, all_seq = None, True
            for s in states:
                if f not in s.fld:
                    continue
                a = s.fld[f]
                o = s.obj.get(a)
                if o is not None and o[0] == 'none':
                    # None is not a number: it adds nothing to the numeric hull of the field (a read that passed `is not None` sees the numbers)
                    iv = I.BOTTOM if iv is None else iv
                else:
                    iv = s.iv(a) if iv is None else I.join(iv, s.iv(a))
                if o is not None and o[0] in ('tuple', 'seq'):
                    for x in (o[1] if o[0] == 'tuple' else (o[1],)):
                        seq_iv = s.iv(x) if seq_iv is None else I.join(seq_iv, s.iv(x))
                else:
                    all_seq = False
                obj = o if obj == 'unset' else join_obj([o, obj])
            if obj is None and all_seq:
                obj = ('seqiv', seq_iv)          # sequences of differing length / content: the hull of their elements
            elif obj not in ('unset', None) and obj[0] in ('tuple', 'seq'):
                obj = ('seqiv', seq_iv)          # atoms are per state; the invariant keeps the element hull
            fields[f] = (iv, obj if obj != 'unset' else None)
        facts = None
        for s in states:
            fs = set()
            fl = [f for f in names if f in s.fld]
            for f in fl:
                for g in fl:
                    if f < g:
                        p = s.rel.possible(s.fld[f], s.fld[g])
                        if p == {'<'}: fs.add((f, '<', g))
                        elif p == {'<', '='}: fs.add((f, '<=', g))
                        elif p == {'>'}: fs.add((g, '<', f))
                        elif p == {'>', '='}: fs.add((g, '<=', f))
                        elif p == {'='}: fs.add((f, '==', g))
                        elif p == {'<', '>'}: fs.add((f, '!=', g))
            facts = fs if facts is None else (facts & fs)
        numf = {f for f in names if all(f in s.fld and s.fld[f] in s.num for s in states if f in s.fld) and any(f in s.fld for s in states)}
        underf = {f for f in names if any(f in s.fld and s.fld[f] in s.under for s in states)}
        return {'fields': fields, 'facts': facts or set(), 'num': numf, 'under': underf}

    def class_invariant(self, cname):
        if cname in self.invariants:
            return self.invariants[cname]
        saved = (self.record, self.cur)
        self.record = False
        try:
            st = State()
            self.cur = [(cname, cname, '<new>')]
            ci, init = self.prog.resolve(cname, '__init__')
            res = self.call_method(st, cname, '__init__', [], {}, None, free_params=True) if init is not None else [(st, None)]
            inv = self.collect_inv([r[0] for r in res])
            seen_before_fields = set(inv['fields'])
            writers = self.field_writers(cname) - {'__init__'}
            if not hasattr(self, 'inv_in_progress'):
                self.inv_in_progress = {}
            self.inv_in_progress[cname] = inv
            for rnd in range(6):
                states = []
                base = self.instantiate(cname, inv)
                states.append(base)
                for mn in sorted(writers):
                    s0 = self.instantiate(cname, inv)
                    self.cur = [(cname, cname, '<inv>')]
                    for (rs, ra) in self.call_method(s0, cname, mn, [], {}, None, free_params=True):
                        states.append(rs)
                new = self.collect_inv(states)
                # join with old, widen from round 2
                changed = False
                for f, (iv, obj) in new['fields'].items():
                    if f in inv['fields']:
                        oiv, oobj = inv['fields'][f]
                        j = I.join(oiv, iv)
                        if j != oiv:
                            changed = True
                            if rnd >= 2:
                                j = I.widen(oiv, j)
                        if obj is not None and oobj is not None and obj[0] == 'seqiv' and oobj[0] == 'seqiv' and obj != oobj:
                            e_ = obj[1] if oobj[1] is None else (oobj[1] if obj[1] is None else I.join(oobj[1], obj[1]))
                            if e_ != oobj[1]:
                                changed = True
                                if rnd >= 2 and oobj[1] is not None:
                                    e_ = I.widen(oobj[1], e_)
                            obj = oobj = ('seqiv', e_)
                        inv['fields'][f] = (j, obj if obj == oobj else None)
                    else:
                        inv['fields'][f] = (iv, obj); changed = True
                inv['facts'] = inv['facts'] & new['facts']
                # float / int typed fields: typed in every state that has the field (a field first seen in this round starts from this round)
                nn = set()
                for f in inv['fields']:
                    was = f in inv.get('num', set())
                    now = f in new.get('num', set())
                    if f in seen_before_fields:
                        if was and (now or f not in new['fields']):
                            nn.add(f)
                    elif now:
                        nn.add(f)
                inv['num'] = nn
                inv['under'] = set(inv.get('under', set())) | set(new.get('under', set()))
                seen_before_fields |= set(new['fields'])
                self.apply_axioms(cname, inv)
                if not changed:
                    break
            self.apply_axioms(cname, inv)
            self.invariants[cname] = inv
        finally:
            self.record, self.cur = saved
        return self.invariants[cname]

    def apply_axioms(self, cname, inv):
        for c in self.prog.mro(cname):
            for f, iv in self.axioms.get(c, {}).items():
                if f in inv['fields']:
                    inv['fields'][f] = (iv, inv['fields'][f][1])

    def analyse_entry(self, cname, mname):
        inv = self.class_invariant(cname)
        st = self.instantiate(cname, inv)
        self.record = True
        self.cur = [(cname, cname, '<entry>')]
        res = self.call_method(st, cname, mname, [], {}, None, free_params=True)
        self.record = False
        iv = None
        for (rs, ra) in res:
            iv = rs.iv(ra) if iv is None else I.join(iv, rs.iv(ra))
        return iv

    def analyse_entry_states(self, cname, mname):
        """like analyse_entry but returns the list of (state, returned atom) so that callers can query order facts"""
        inv = self.class_invariant(cname)
        st = self.instantiate(cname, inv)
        saved = self.record
        self.record = False
        self.cur = [(cname, cname, '<entry>')]
        res = self.call_method(st, cname, mname, [], {}, None, free_params=True)
        self.record = saved
        return res

    def analyse_ctor(self, cname):
        self.record = True
        self.cur = [(cname, cname, '<entry>')]
        st = State()
        self.call_method(st, cname, '__init__', [], {}, None, free_params=True)
        self.record = False


def node_as_binop(aug):
    b = ast.BinOp(left=aug.target, op=aug.op, right=aug.value)
    return ast.copy_location(b, aug)


def report(an, title):
    print(f'== {title}')
    unsafe = 0
    for key, e in sorted(an.sinks.items()):
        cls, fn, ln, col, _el, _ec, kind = key
        status = 'UNSAFE' if e['unsafe'] else 'safe  '
        if e['unsafe']:
            unsafe += 1
        print(f"  {status} {cls}.{fn}:{ln} {kind:8s} {e['text']}" + (f"   <- {'; '.join(sorted(e['why']))[:140]}" if e['unsafe'] else ''))
        if e['unsafe'] and len(e['chains']) and any('>' in c for c in e['chains']):
            print(f"           via {sorted(e['chains'])[0]}")
    print(f'  sinks {len(an.sinks)}  unproved {unsafe}')
