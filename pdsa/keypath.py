"""E13 -- symbolic interpretation of the dotted-key descent of a parameter map (get / remove and the helpers they call).

The key is a string made of n symbolic parts `p1.p2...pn`; the tree below the receiver holds the chain p1 -> p2 -> ... (the first n-1
nodes are maps, the last one a parameter) or one of the defective variants (a node missing, a non-map in the way).  String operations are
interpreted on the parts (`'.' in key`, split, partition, find / index + slicing, join, len of a part), sequences are concrete lists of
abstract values (indexing, slicing, starred unpacking, loops), `self.<value field>` of a map node is its dict of children, method calls on
a map node are walked in place (recursion to a bounded depth), calls of pure module-level helpers are evaluated in place.

This is a bounded decision (n = 1, 2, 3 parts; the bound is reported): for every n and every variant of the tree the outcome -- the node
returned, the node removed, or KeyError -- is compared with the specification.  Nothing of the analysed program is executed.
"""
from __future__ import annotations

import ast

from .core import body_of, is_self_attr, unparse


class Unsupported(Exception):
    pass


class _Raise(Exception):
    def __init__(self, kind):
        self.kind = kind


class _Return(Exception):
    def __init__(self, value):
        self.value = value


NONE = ('none',)
OTHER = ('other',)


class World:
    """the tree below the receiver: chain of parts; `missing` = index of the first absent node (or None); `leaf_at` = index of a node that is a
    plain parameter although the key goes on below it (or None)"""

    def __init__(self, parts, missing=None, leaf_at=None):
        self.parts, self.missing, self.leaf_at = list(parts), missing, leaf_at
        self.removed = []

    def node(self, path):
        path = list(path)
        if path != self.parts[:len(path)] or not path:
            return None if path else ('map', ())
        k = len(path) - 1
        if self.missing is not None and k >= self.missing:
            return None
        if tuple(path) in self.removed:
            return None
        if self.leaf_at is not None and k > self.leaf_at:
            return None
        if k == len(self.parts) - 1 or (self.leaf_at is not None and k == self.leaf_at):
            return ('leaf', tuple(path))
        return ('map', tuple(path))


class Interp:
    def __init__(self, prog, cls, V, world):
        self.prog, self.cls, self.V, self.w = prog, cls, V, world
        self.depth = 0

    def call_method(self, node, mname, args):
        r = self.prog.resolve(self.cls, mname)
        fn = r[1] if r else None
        if fn is None:
            raise Unsupported(f'method {mname}')
        if self.depth > 8:
            raise Unsupported('descent deeper than the bound')
        params = [a.arg for a in fn.args.args]
        if len(args) != len(params) - 1:
            raise Unsupported('call with defaults')
        env = dict(zip(params, [node] + list(args)))
        self.depth += 1
        try:
            self.block(body_of(fn), env)
        except _Return as r_:
            return r_.value
        finally:
            self.depth -= 1
        return NONE

    def block(self, stmts, env):
        for st in stmts:
            self.stmt(st, env)

    def stmt(self, st, env):
        if isinstance(st, ast.Expr):
            if not isinstance(st.value, ast.Constant):
                self.ev(st.value, env)
            return
        if isinstance(st, (ast.Pass, ast.Assert)):
            return
        if isinstance(st, ast.Return):
            raise _Return(self.ev(st.value, env) if st.value is not None else NONE)
        if isinstance(st, ast.Raise):
            raise _Raise(unparse(st.exc.func) if isinstance(st.exc, ast.Call) else (unparse(st.exc) if st.exc is not None else 're-raise'))
        if isinstance(st, ast.If):
            self.block(st.body if self.truth(self.ev(st.test, env)) else st.orelse, env)
            return
        if isinstance(st, (ast.Assign, ast.AnnAssign)):
            if getattr(st, 'value', None) is None:
                return
            v = self.ev(st.value, env)
            for t in (st.targets if isinstance(st, ast.Assign) else [st.target]):
                self.assign(t, v, env)
            return
        if isinstance(st, ast.For) and not st.orelse:
            it = self.ev(st.iter, env)
            if not (isinstance(it, tuple) and it[0] == 'seq'):
                raise Unsupported('loop over something else than a sequence of key parts')
            for el in it[1]:
                self.assign(st.target, el, env)
                try:
                    self.block(st.body, env)
                except _BreakLoop:
                    break
                except _ContinueLoop:
                    continue
            return
        if isinstance(st, ast.While):
            for _i in range(8):
                if not self.truth(self.ev(st.test, env)):
                    return
                try:
                    self.block(st.body, env)
                except _BreakLoop:
                    return
                except _ContinueLoop:
                    continue
            raise Unsupported('loop bound')
        if isinstance(st, ast.Break):
            raise _BreakLoop()
        if isinstance(st, ast.Continue):
            raise _ContinueLoop()
        if isinstance(st, ast.Delete):
            for t in st.targets:
                if isinstance(t, ast.Subscript):
                    d = self.ev(t.value, env)
                    k = self.ev(t.slice, env)
                    if isinstance(d, tuple) and d[0] == 'dictof':
                        self.remove_child(d[1], k)
                        continue
                raise Unsupported(f'del `{unparse(t)}`')
            return
        if isinstance(st, ast.Try):
            try:
                self.block(st.body, env)
            except _Raise as e:
                for h in st.handlers:
                    names = [] if h.type is None else [unparse(x) for x in (h.type.elts if isinstance(h.type, ast.Tuple) else [h.type])]
                    if h.type is None or e.kind in names or 'Exception' in names or (e.kind in ('KeyError', 'IndexError') and 'LookupError' in names):
                        self.block(h.body, env)
                        break
                else:
                    raise
            else:
                self.block(st.orelse, env)
            self.block(st.finalbody, env)
            return
        raise Unsupported(f'{type(st).__name__} statement')

    def assign(self, t, v, env):
        if isinstance(t, ast.Name):
            env[t.id] = v
            return
        if isinstance(t, (ast.Tuple, ast.List)):
            if not (isinstance(v, tuple) and v[0] == 'seq'):
                raise Unsupported('unpacking of a non-sequence')
            els = list(v[1])
            star = [i for i, x in enumerate(t.elts) if isinstance(x, ast.Starred)]
            if not star:
                if len(els) != len(t.elts):
                    raise _Raise('ValueError')
                for a, b in zip(t.elts, els):
                    self.assign(a, b, env)
                return
            i = star[0]
            after = len(t.elts) - i - 1
            if len(els) < len(t.elts) - 1:
                raise _Raise('ValueError')
            for a, b in zip(t.elts[:i], els[:i]):
                self.assign(a, b, env)
            self.assign(t.elts[i].value, ('seq', els[i:len(els) - after]), env)
            for a, b in zip(t.elts[i + 1:], els[len(els) - after:]):
                self.assign(a, b, env)
            return
        raise Unsupported(f'assignment to `{unparse(t)}`')

    # ------------------------------------------------------------------ tree
    def child(self, path, k):
        if not (isinstance(k, tuple) and k[0] == 'str' and len(k[1]) == 1):
            return None                       # a string that is not one key element names no child
        return self.w.node(list(path) + [k[1][0]])

    def remove_child(self, path, k):
        n = self.child(path, k)
        if n is None:
            raise _Raise('KeyError')
        self.w.removed.append(tuple(n[1]))
        return n

    # ------------------------------------------------------------------ expressions
    def truth(self, v):
        if v == NONE:
            return False
        if isinstance(v, tuple) and v[0] == 'bool':
            return v[1]
        if isinstance(v, tuple) and v[0] == 'int':
            return v[1] != 0
        if isinstance(v, tuple) and v[0] == 'seq':
            return bool(v[1])
        if isinstance(v, tuple) and v[0] == 'str':
            return bool(v[1]) and v[1] != ['']
        if isinstance(v, tuple) and v[0] in ('map', 'leaf'):
            return True
        raise Unsupported(f'truth of {v[0] if isinstance(v, tuple) else v}')

    def ev(self, e, env):
        if isinstance(e, ast.Constant):
            if e.value is None:
                return NONE
            if isinstance(e.value, bool):
                return ('bool', e.value)
            if isinstance(e.value, int):
                return ('int', e.value)
            if e.value == '.':
                return ('dot',)
            return OTHER
        if isinstance(e, ast.JoinedStr):
            return OTHER
        if isinstance(e, ast.UnaryOp) and isinstance(e.op, ast.USub):
            v = self.ev(e.operand, env)
            if isinstance(v, tuple) and v[0] == 'int':
                return ('int', -v[1])
            raise Unsupported('negation')
        if isinstance(e, ast.UnaryOp) and isinstance(e.op, ast.Not):
            return ('bool', not self.truth(self.ev(e.operand, env)))
        if isinstance(e, ast.Name):
            if e.id in env:
                return env[e.id]
            return OTHER
        if isinstance(e, (ast.Tuple, ast.List)):
            return ('seq', [self.ev(x, env) for x in e.elts])
        if isinstance(e, ast.BoolOp):
            is_and = isinstance(e.op, ast.And)
            v = None
            for x in e.values:
                v = self.ev(x, env)
                if self.truth(v) != is_and:
                    return v
            return v
        if isinstance(e, ast.IfExp):
            return self.ev(e.body if self.truth(self.ev(e.test, env)) else e.orelse, env)
        if isinstance(e, ast.Attribute):
            base = self.ev(e.value, env)
            if isinstance(base, tuple) and base[0] == 'map' and e.attr == self.V:
                return ('dictof', base[1])
            if isinstance(base, tuple) and base[0] == 'map' and e.attr == 'value':
                return ('dictof', base[1])
            return OTHER
        if isinstance(e, ast.BinOp) and isinstance(e.op, (ast.Add, ast.Sub)):
            a, b = self.ev(e.left, env), self.ev(e.right, env)
            if isinstance(a, tuple) and isinstance(b, tuple) and a[0] == 'int' and b[0] == 'int':
                return ('int', a[1] + b[1] if isinstance(e.op, ast.Add) else a[1] - b[1])
            if isinstance(a, tuple) and a[0] == 'off' and isinstance(b, tuple) and b[0] == 'int':
                return ('off', a[1], a[2] + (b[1] if isinstance(e.op, ast.Add) else -b[1]))
            if isinstance(a, tuple) and a[0] == 'int' and isinstance(b, tuple) and b[0] == 'off' and isinstance(e.op, ast.Add):
                return ('off', b[1], b[2] + a[1])
            raise Unsupported(f'arithmetic `{unparse(e)[:40]}`')
        if isinstance(e, ast.Compare) and len(e.ops) == 1:
            return self.compare(e, env)
        if isinstance(e, ast.Subscript):
            return self.subscript(e, env)
        if isinstance(e, ast.Call):
            return self.call(e, env)
        raise Unsupported(f'expression `{unparse(e)[:40]}`')

    def compare(self, e, env):
        op = e.ops[0]
        a, b = self.ev(e.left, env), self.ev(e.comparators[0], env)
        if isinstance(op, (ast.In, ast.NotIn)):
            if a == ('dot',) and isinstance(b, tuple) and b[0] == 'str':
                r = len(b[1]) > 1
            elif isinstance(b, tuple) and b[0] == 'dictof':
                r = self.child(b[1], a) is not None
            elif isinstance(b, tuple) and b[0] == 'seq':
                r = a in b[1]
            else:
                raise Unsupported('membership')
            return ('bool', r if isinstance(op, ast.In) else not r)
        if isinstance(op, (ast.Is, ast.IsNot, ast.Eq, ast.NotEq)) and (a == NONE or b == NONE):
            r = a == b
            return ('bool', r if isinstance(op, (ast.Is, ast.Eq)) else not r)
        if isinstance(a, tuple) and isinstance(b, tuple) and a[0] == 'int' and b[0] == 'int':
            x, y = a[1], b[1]
            return ('bool', {ast.Lt: x < y, ast.LtE: x <= y, ast.Gt: x > y, ast.GtE: x >= y, ast.Eq: x == y, ast.NotEq: x != y}[type(op)])
        if isinstance(a, tuple) and a[0] == 'off' and isinstance(b, tuple) and b[0] == 'int' and a[2] == 0:
            # key.find('.') compared with a number: the position is >= 1 for a non-empty first part, -1 when there is no dot (handled as int)
            y = b[1]
            if y <= 0:
                return ('bool', {ast.Lt: False, ast.LtE: False, ast.Gt: True, ast.GtE: True, ast.Eq: False, ast.NotEq: True}[type(op)])
        if isinstance(a, tuple) and isinstance(b, tuple) and a[0] == 'str' and b[0] == 'str' and isinstance(op, (ast.Eq, ast.NotEq)):
            return ('bool', (a[1] == b[1]) == isinstance(op, ast.Eq))
        raise Unsupported(f'comparison `{unparse(e)[:40]}`')

    def subscript(self, e, env):
        base = self.ev(e.value, env)
        if isinstance(base, tuple) and base[0] == 'seq':
            els = base[1]
            if isinstance(e.slice, ast.Slice):
                if e.slice.step is not None:
                    raise Unsupported('slice step')
                lo = self.ev(e.slice.lower, env) if e.slice.lower is not None else ('int', 0)
                hi = self.ev(e.slice.upper, env) if e.slice.upper is not None else ('int', len(els))
                if lo[0] != 'int' or hi[0] != 'int':
                    raise Unsupported('slice bounds')
                return ('seq', els[lo[1]:hi[1]])
            i = self.ev(e.slice, env)
            if i[0] != 'int':
                raise Unsupported('index')
            try:
                return els[i[1]]
            except IndexError:
                raise _Raise('IndexError')
        if isinstance(base, tuple) and base[0] == 'str':
            parts = base[1]
            if isinstance(e.slice, ast.Slice) and e.slice.step is None:
                lo = self.ev(e.slice.lower, env) if e.slice.lower is not None else None
                hi = self.ev(e.slice.upper, env) if e.slice.upper is not None else None
                # offsets: ('off', k, extra) = the length of the first k parts joined by dots, plus extra characters
                if lo is not None and lo[0] == 'off' and hi is None:
                    pre, extra = list(lo[1]), lo[2]
                    k = len(pre)
                    if extra == 1 and len(parts) > k and parts[:k] == pre:
                        return ('str', parts[k:])             # just behind the dot that follows the prefix
                    return ('str', ['?'])                   # starts at a dot / inside a part / behind another string's length: not a key
                if hi is not None and hi[0] == 'off' and lo is None:
                    pre, extra = list(hi[1]), hi[2]
                    return ('str', pre) if extra == 0 and parts[:len(pre)] == pre else ('str', ['?'])
                if lo is not None and lo[0] == 'int' and lo[1] == 0 and hi is None:
                    return base
            raise Unsupported(f'string subscript `{unparse(e)[:40]}`')
        if isinstance(base, tuple) and base[0] == 'dictof':
            k = self.ev(e.slice, env)
            n = self.child(base[1], k)
            if n is None:
                raise _Raise('KeyError')
            return n
        raise Unsupported(f'subscript `{unparse(e)[:40]}`')

    def call(self, e, env):
        f = e.func
        ft = unparse(f)
        if e.keywords:
            raise Unsupported('keyword arguments')
        if ft == 'isinstance' and len(e.args) == 2:
            v = self.ev(e.args[0], env)
            t = unparse(e.args[1])
            if isinstance(v, tuple) and v[0] in ('map', 'leaf'):
                if t == self.cls:
                    return ('bool', v[0] == 'map')
                return ('bool', True)
            if t == 'str':
                return ('bool', isinstance(v, tuple) and v[0] == 'str')
            raise Unsupported('isinstance of something else')
        if ft == 'len' and len(e.args) == 1:
            v = self.ev(e.args[0], env)
            if isinstance(v, tuple) and v[0] == 'seq':
                return ('int', len(v[1]))
            if isinstance(v, tuple) and v[0] == 'str':
                return ('off', tuple(v[1]), 0)                # the length of these parts joined by dots
            raise Unsupported('len')
        if ft in ('tuple', 'list') and len(e.args) == 1:
            v = self.ev(e.args[0], env)
            if isinstance(v, tuple) and v[0] == 'seq':
                return ('seq', list(v[1]))
            raise Unsupported(f'{ft}() of something else')
        if ft in ('str',) and len(e.args) == 1:
            return self.ev(e.args[0], env)
        if isinstance(f, ast.Name) and f.id in self.prog.funcs:
            fn = self.prog.funcs[f.id][1]
            params = [a.arg for a in fn.args.args]
            if len(params) != len(e.args):
                raise Unsupported('helper call with defaults')
            try:
                self.block(body_of(fn), dict(zip(params, [self.ev(a, env) for a in e.args])))
            except _Return as r:
                return r.value
            return NONE
        if isinstance(f, ast.Attribute):
            recv = self.ev(f.value, env)
            m = f.attr
            args = [self.ev(a, env) for a in e.args]
            if recv == ('dot',) and m == 'join' and len(args) == 1 and args[0][0] == 'seq':
                parts = []
                for x in args[0][1]:
                    if not (isinstance(x, tuple) and x[0] == 'str'):
                        raise Unsupported('join of non-strings')
                    parts += x[1]
                return ('str', parts)
            if isinstance(recv, tuple) and recv[0] == 'str':
                parts = recv[1]
                if m == 'split' and args and args[0] == ('dot',):
                    if len(args) == 2 and args[1] == ('int', 1):
                        return ('seq', [('str', parts[:1])] + ([('str', parts[1:])] if len(parts) > 1 else []))
                    if len(args) == 1:
                        return ('seq', [('str', [p]) for p in parts])
                if m == 'rsplit' and args == [('dot',), ('int', 1)]:
                    return ('seq', ([('str', parts[:-1])] if len(parts) > 1 else []) + [('str', parts[-1:])])
                if m == 'partition' and args == [('dot',)]:
                    return ('seq', [('str', parts[:1]), ('dot',) if len(parts) > 1 else ('str', ['']), ('str', parts[1:]) if len(parts) > 1 else ('str', [''])])
                if m == 'rpartition' and args == [('dot',)]:
                    return ('seq', [('str', parts[:-1]) if len(parts) > 1 else ('str', ['']), ('dot',) if len(parts) > 1 else ('str', ['']), ('str', parts[-1:])])
                if m in ('find', 'index') and args == [('dot',)]:
                    if len(parts) > 1:
                        return ('off', tuple(parts[:1]), 0)
                    if m == 'index':
                        raise _Raise('ValueError')
                    return ('int', -1)
                if m == 'count' and args == [('dot',)]:
                    return ('int', len(parts) - 1)
                raise Unsupported(f'string method .{m}')
            if isinstance(recv, tuple) and recv[0] == 'seq':
                if m == 'pop' and len(args) <= 1:
                    i = args[0][1] if args and args[0][0] == 'int' else -1
                    try:
                        return recv[1].pop(i)              # the list object itself is changed (it is shared by everyone holding it)
                    except IndexError:
                        raise _Raise('IndexError')
                if m == 'copy' and not args:
                    return ('seq', list(recv[1]))
                raise Unsupported(f'list method .{m}')
            if isinstance(recv, tuple) and recv[0] == 'dictof':
                if m == 'get' and args:
                    n = self.child(recv[1], args[0])
                    return n if n is not None else (args[1] if len(args) > 1 else NONE)
                if m == 'pop' and args:
                    n = self.child(recv[1], args[0])
                    if n is None:
                        if len(args) > 1:
                            return args[1]
                        raise _Raise('KeyError')
                    self.w.removed.append(tuple(n[1]))
                    return n
                if m == 'keys' and not args:
                    return recv
                raise Unsupported(f'dict method .{m}')
            if isinstance(recv, tuple) and recv[0] == 'map':
                return self.call_method(recv, m, args)
            if isinstance(recv, tuple) and recv[0] == 'leaf':
                raise _Raise('AttributeError')
            raise Unsupported(f'call `{unparse(e)[:40]}`')
        raise Unsupported(f'call `{unparse(e)[:40]}`')

    def _key_prefix(self, parts):
        return parts


class _BreakLoop(Exception):
    pass


class _ContinueLoop(Exception):
    pass


def check_descent(prog, cls, V, max_parts=3):
    """-> ({'get': [...], 'remove': [...]}, None) or (None, reason).  Problems: (description of the key / tree, what is wrong)"""
    problems = {'get': [], 'remove': []}
    for m in ('get', 'remove'):
        for n in range(1, max_parts + 1):
            parts = [f'p{i + 1}' for i in range(n)]
            worlds = [('every element of the key is present', World(parts))]
            for j in range(n):
                worlds.append((f'element {j + 1} of the key is absent', World(parts, missing=j)))
            for j in range(n - 1):
                worlds.append((f'element {j + 1} of the key names a parameter that is not a map', World(parts, leaf_at=j)))
            for (desc, w) in worlds:
                it = Interp(prog, cls, V, w)
                key = ('str', list(parts))
                what = f'a key of {n} element(s), {desc}'
                try:
                    try:
                        out = ('return', it.call_method(('map', ()), m, [key]))
                    except _Raise as e:
                        out = ('raise', e.kind)
                except Unsupported as e:
                    return None, f'{m}: {e}'
                except RecursionError:
                    return None, 'recursion'
                healthy = w.missing is None and w.leaf_at is None
                if healthy:
                    want = ('leaf', tuple(parts))
                    if out[0] == 'raise':
                        problems[m].append((what, f'{out[1]} is raised'))
                    elif m == 'get':
                        if out[1] != want:
                            problems[m].append((what, f'get() returns {_show(out[1])}, not the parameter the key names'))
                        elif w.removed:
                            problems[m].append((what, 'get() removes a parameter'))
                    else:
                        if w.removed != [tuple(parts)]:
                            problems[m].append((what, f'remove() removes {[".".join(r) for r in w.removed] or "nothing"}, not the parameter the key names'))
                else:
                    if out[0] != 'raise' or out[1] != 'KeyError':
                        problems[m].append((what, ('no KeyError: ' + (f'{out[1]} is raised' if out[0] == 'raise' else f'{_show(out[1])} is returned'))))
                    elif w.removed:
                        problems[m].append((what, 'a parameter is removed although the key names none'))
    return problems, None


def _show(v):
    if isinstance(v, tuple) and v[0] in ('map', 'leaf'):
        return ('the map ' if v[0] == 'map' else 'the parameter ') + ('.'.join(v[1]) or '<the receiver>')
    if v == NONE:
        return 'None'
    return str(v[0] if isinstance(v, tuple) else v)
