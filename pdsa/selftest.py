"""Two-way self-test of the checkers (thorough tier).

Every variant is an edit of the *current* tree written to a scratch copy outside /repo and /verif, analysed (never
executed) and deleted.  A *seeded* variant breaks one rule instance and must be reported with the expected rule (and,
when given, a key fragment naming the construct); a *benign* variant is a behaviour-preserving rewrite and must add
no finding.  A variant whose anchor text is not present in the current tree is skipped and listed (the tree moved on).
A miss is a checker failure (exit 2), never a VIOLATION.
"""
from __future__ import annotations

import concurrent.futures
import os
import shutil
import sys
import tempfile
import time

from .core import PKG_REL, AnalysisError


def _analyse(args):
    pid, root = args
    from .cli import analyse
    try:
        ctx, _ = analyse(pid, root, 'quick')
        return ('ok', [(f.rule, f.key, f.file, f.line) for f in ctx.findings])
    except AnalysisError as e:
        return ('analysis-error', str(e))
    except Exception as e:                      # pragma: no cover
        return ('crash', f'{type(e).__name__}: {e}')


def _make_variant_tree(base_pkg, scratch, name, edits):
    """copy the package and apply edits [(module, old, new)]; returns root or None when an anchor is missing"""
    root = os.path.join(scratch, name)
    pkg = os.path.join(root, PKG_REL)
    os.makedirs(os.path.dirname(pkg), exist_ok=True)
    shutil.copytree(base_pkg, pkg)
    for (module, old, new) in edits:
        p = os.path.join(pkg, module + '.py')
        raw = open(p, 'rb').read().decode('utf-8')
        crlf = '\r\n' in raw
        src = raw.replace('\r\n', '\n')
        if src.count(old) != 1:
            return None, f'{module}.py: anchor occurs {src.count(old)} times: {old[:60]!r}'
        src = src.replace(old, new, 1)
        if crlf:
            src = src.replace('\n', '\r\n')
        with open(p, 'wb') as fh:
            fh.write(src.encode('utf-8'))
    return root, None


def run(pid, root, quiet=False, jobs=None):
    from .variants import VARIANTS
    variants = VARIANTS.get(pid, [])
    t0 = time.time()
    scratch = tempfile.mkdtemp(prefix='pdsa_selftest_')
    res = {'variants': len(variants), 'applicable': 0, 'seeded_detected': 0, 'benign_silent': 0, 'failed': 0, 'failures': [], 'skipped': [],
           'details': []}
    try:
        base_pkg = os.path.join(root, PKG_REL)
        base = _analyse((pid, root))
        if base[0] != 'ok':
            raise AnalysisError(f'self-test baseline could not be analysed: {base[1]}')
        base_keys = {k for (_r, k, _f, _l) in base[1]}
        work = []
        for v in variants:
            vroot, why = _make_variant_tree(base_pkg, scratch, v['name'].replace(' ', '_').replace('/', '_')[:60], v['edits'])
            if vroot is None:
                res['skipped'].append(f'{v["name"]}: {why}')
                continue
            work.append((v, vroot))
        # independently seeded changes kept under /verif/seeded: re-applied as patches; those this property's check
        # reported when they were kept must still be reported
        seeded_dir = os.path.join(os.path.dirname(os.path.dirname(os.path.abspath(__file__))), 'seeded')
        if os.path.isdir(seeded_dir):
            import json
            import subprocess
            for name in sorted(os.listdir(seeded_dir)):
                mp = os.path.join(seeded_dir, name, 'meta.json')
                if not os.path.exists(mp):
                    continue
                meta = json.load(open(mp))
                if meta.get('reported_only_with_refused_twin'):
                    res['skipped'].append(f'seeded/{name}: reported only together with its clean twin benign/{meta["reported_only_with_refused_twin"]} '
                                          f'(a documented false alarm); not counted as detected')
                    continue
                rep = meta.get('checks_reporting', {}).get(pid)
                if not rep or rep.get('exit') != 1:
                    continue
                vroot = os.path.join(scratch, 'seed_' + name)
                os.makedirs(os.path.join(vroot, 'src', 'pydsol'), exist_ok=True)
                shutil.copytree(base_pkg, os.path.join(vroot, PKG_REL))
                pr = subprocess.run(['git', 'apply', '--whitespace=nowarn', os.path.join(seeded_dir, name, 'patch.diff')], cwd=vroot,
                                    stdout=subprocess.PIPE, stderr=subprocess.STDOUT, text=True)
                if pr.returncode != 0:
                    res['skipped'].append(f'seeded/{name}: patch no longer applies to the current tree')
                    continue
                rules = sorted({f.split()[0] for f in rep.get('findings', []) if f.startswith('R')})
                work.append(({'name': f'seeded/{name}', 'kind': 'seeded', 'expect': None, 'any_of': rules, 'edits': []}, vroot))
        # behaviour-preserving refactorings written by independent agents (kept under /verif/benign): must add no finding
        benign_dir = os.path.join(os.path.dirname(os.path.dirname(os.path.abspath(__file__))), 'benign')
        if os.path.isdir(benign_dir):
            import subprocess
            unsupported = set()
            up = os.path.join(benign_dir, 'UNSUPPORTED.txt')
            if os.path.exists(up):
                unsupported = {l.split()[0] for l in open(up) if l.strip() and not l.startswith('#')}
            for name in sorted(os.listdir(benign_dir)):
                if not name.endswith('.diff'):
                    continue
                if name[:-5] in unsupported:
                    res['skipped'].append(f'benign/{name}: listed in benign/UNSUPPORTED.txt (a refactoring the checks do not recognise; documented false alarm)')
                    continue
                vroot = os.path.join(scratch, 'benign_' + name[:-5])
                os.makedirs(os.path.join(vroot, 'src', 'pydsol'), exist_ok=True)
                shutil.copytree(base_pkg, os.path.join(vroot, PKG_REL))
                pr = subprocess.run(['git', 'apply', '--whitespace=nowarn', os.path.join(benign_dir, name)], cwd=vroot,
                                    stdout=subprocess.PIPE, stderr=subprocess.STDOUT, text=True)
                if pr.returncode != 0:
                    res['skipped'].append(f'benign/{name}: patch no longer applies to the current tree')
                    continue
                work.append(({'name': f'benign/{name[:-5]}', 'kind': 'benign', 'edits': []}, vroot))
        res['variants'] = len(variants) + sum(1 for (v, _r) in work if v['name'].startswith('seeded/') or v['name'].startswith('benign/'))
        res['applicable'] = len(work)
        jobs = jobs or min(16, max(1, len(work)))
        if work:
            with concurrent.futures.ProcessPoolExecutor(max_workers=jobs) as ex:
                outs = list(ex.map(_analyse, [(pid, vr) for (_v, vr) in work]))
        else:
            outs = []
        for (v, vroot), out in zip(work, outs):
            new = []
            if out[0] == 'ok':
                new = [(r, k) for (r, k, _f, _l) in out[1] if k not in base_keys]
            if v['kind'] == 'seeded':
                want = v['expect']
                frag = v.get('key', '')
                if want is None:
                    hit = list(new)                     # a kept patch: any new finding of this property's check counts
                    want = 'any rule (was: ' + ','.join(v.get('any_of', [])) + ')'
                else:
                    hit = [(r, k) for (r, k) in new if r == want and frag in k]
                if out[0] == 'ok' and hit:
                    res['seeded_detected'] += 1
                    res['details'].append(f'seeded  {v["name"]}: reported by {hit[0][0]} ({hit[0][1][:80]})')
                elif out[0] == 'analysis-error' and v.get('accept_analysis_error'):
                    res['seeded_detected'] += 1
                    res['details'].append(f'seeded  {v["name"]}: analysis refuses the tree ({out[1][:80]})')
                else:
                    res['failed'] += 1
                    res['failures'].append(f'seeded variant "{v["name"]}" not reported by {want}{" with key containing " + frag if frag else ""}: '
                                           + (f'new findings {new[:3]}' if out[0] == 'ok' else f'{out[0]}: {out[1][:120]}'))
            else:
                if out[0] == 'ok' and not new:
                    res['benign_silent'] += 1
                    res['details'].append(f'benign  {v["name"]}: silent')
                else:
                    res['failed'] += 1
                    res['failures'].append(f'benign variant "{v["name"]}" raised an alarm: '
                                           + (f'{new[:3]}' if out[0] == 'ok' else f'{out[0]}: {out[1][:160]}'))
    finally:
        shutil.rmtree(scratch, ignore_errors=True)
    res['wall_s'] = round(time.time() - t0, 2)
    if not quiet:
        print(f'[{pid}] self-test: {res["variants"]} variants, {res["applicable"]} applicable, seeded detected {res["seeded_detected"]}, '
              f'benign silent {res["benign_silent"]}, failed {res["failed"]}, skipped {len(res["skipped"])}, {res["wall_s"]}s')
    return res


if __name__ == '__main__':
    pids = sys.argv[1:] or sorted(__import__('pdsa.variants', fromlist=['VARIANTS']).VARIANTS)
    rc = 0
    for p in pids:
        r = run(p, os.environ.get('PDSA_ROOT', '/repo'))
        for d in r['details']:
            print('   ', d)
        for f in r['failures']:
            print('    FAIL', f)
            rc = 1
        for s in r['skipped']:
            print('    skipped', s)
    sys.exit(rc)
