"""Intervals over the extended reals with open/closed ends and a may-be-NaN flag.

Real-number semantics: overflow / rounding not modelled.
"""
import math
from dataclasses import dataclass, replace

INF = math.inf


@dataclass(frozen=True)
class Itv:
    lo: float = -INF
    hi: float = INF
    lo_open: bool = True      # default TOP = all finite reals
    hi_open: bool = True
    nan: bool = False
    isint: bool = False
    empty: bool = False       # no non-NaN value

    # ------------------------------------------------------------ basics
    def __str__(self):
        if self.empty:
            return "NaN" if self.nan else "⊥"
        s = ("(" if self.lo_open else "[") + f"{self.lo:g}, {self.hi:g}" + (")" if self.hi_open else "]")
        if self.isint:
            s += "ℤ"
        if self.nan:
            s += "∪NaN"
        return s

    def norm(self):
        if self.empty:
            return self
        lo, hi, lo_o, hi_o = self.lo, self.hi, self.lo_open, self.hi_open
        if self.isint:
            if lo != -INF:
                l2 = math.floor(lo) + 1 if (lo_o and lo == math.floor(lo)) else math.ceil(lo)
                lo, lo_o = float(l2), False
            if hi != INF:
                h2 = math.ceil(hi) - 1 if (hi_o and hi == math.ceil(hi)) else math.floor(hi)
                hi, hi_o = float(h2), False
        if lo > hi or (lo == hi and (lo_o or hi_o)):
            return replace(self, empty=True)
        return replace(self, lo=lo, hi=hi, lo_open=lo_o, hi_open=hi_o)

    def is_bottom(self):
        return self.empty and not self.nan

    def contains(self, v):
        if self.empty:
            return False
        if v < self.lo or v > self.hi:
            return False
        if v == self.lo and self.lo_open:
            return False
        if v == self.hi and self.hi_open:
            return False
        return True

    def is_point(self):
        return (not self.empty) and self.lo == self.hi and not self.nan

    # sign helpers (for the non-NaN part)
    def gt0(self):
        return self.empty or self.lo > 0 or (self.lo == 0 and self.lo_open)

    def ge0(self):
        return self.empty or self.lo >= 0

    def lt0(self):
        return self.empty or self.hi < 0 or (self.hi == 0 and self.hi_open)

    def le0(self):
        return self.empty or self.hi <= 0

    def nonzero(self):
        return not self.contains(0.0)

    def finite(self):
        return self.empty or (not self.contains(INF) and not self.contains(-INF))


TOP = Itv()
TOP_NAN = Itv(nan=True)
BOTTOM = Itv(empty=True)
NAN = Itv(empty=True, nan=True)
BOOL = Itv(0.0, 1.0, False, False, isint=True)
TRUE = Itv(1.0, 1.0, False, False, isint=True)
FALSE = Itv(0.0, 0.0, False, False, isint=True)
UNIT_HALFOPEN = Itv(0.0, 1.0, False, True)      # [0,1)


def const(v):
    if isinstance(v, bool):
        return TRUE if v else FALSE
    if isinstance(v, (int, float)):
        if isinstance(v, float) and math.isnan(v):
            return NAN
        return Itv(float(v), float(v), False, False, isint=isinstance(v, int))
    return None


def join(a, b):
    if a.empty and b.empty:
        return Itv(empty=True, nan=a.nan or b.nan)
    if a.empty:
        return replace(b, nan=a.nan or b.nan)
    if b.empty:
        return replace(a, nan=a.nan or b.nan)
    if a.lo < b.lo:
        lo, lo_o = a.lo, a.lo_open
    elif b.lo < a.lo:
        lo, lo_o = b.lo, b.lo_open
    else:
        lo, lo_o = a.lo, a.lo_open and b.lo_open
    if a.hi > b.hi:
        hi, hi_o = a.hi, a.hi_open
    elif b.hi > a.hi:
        hi, hi_o = b.hi, b.hi_open
    else:
        hi, hi_o = a.hi, a.hi_open and b.hi_open
    return Itv(lo, hi, lo_o, hi_o, a.nan or b.nan, a.isint and b.isint)


def meet(a, b):
    if a.empty or b.empty:
        return Itv(empty=True, nan=a.nan and b.nan)
    if a.lo > b.lo:
        lo, lo_o = a.lo, a.lo_open
    elif b.lo > a.lo:
        lo, lo_o = b.lo, b.lo_open
    else:
        lo, lo_o = a.lo, a.lo_open or b.lo_open
    if a.hi < b.hi:
        hi, hi_o = a.hi, a.hi_open
    elif b.hi < a.hi:
        hi, hi_o = b.hi, b.hi_open
    else:
        hi, hi_o = a.hi, a.hi_open or b.hi_open
    return Itv(lo, hi, lo_o, hi_o, a.nan and b.nan, a.isint or b.isint).norm()


def widen(old, new):
    """old ⊑ new expected; unstable bounds jump to ±inf (open: finite values only)."""
    j = join(old, new)
    if old.empty:
        return j
    lo, lo_o, hi, hi_o = j.lo, j.lo_open, j.hi, j.hi_open
    if j.lo < old.lo or (j.lo == old.lo and old.lo_open and not j.lo_open):
        lo, lo_o = -INF, True
    if j.hi > old.hi or (j.hi == old.hi and old.hi_open and not j.hi_open):
        hi, hi_o = INF, True
    return Itv(lo, hi, lo_o, hi_o, j.nan, j.isint)


def leq(a, b):
    """a ⊑ b"""
    return join(a, b) == b or (a.empty and (b.nan or not a.nan))


# ------------------------------------------------------------ arithmetic
def _nanres(a, b=None):
    return a.nan or (b.nan if b is not None else False)


def neg(a):
    if a.empty:
        return a
    return Itv(-a.hi, -a.lo, a.hi_open, a.lo_open, a.nan, a.isint)


def add(a, b):
    n = _nanres(a, b)
    if a.empty or b.empty:
        return Itv(empty=True, nan=n)
    # inf + -inf -> nan when both infinities are attained
    if (a.contains(INF) and b.contains(-INF)) or (a.contains(-INF) and b.contains(INF)):
        n = True
    def _open(x, xo, y, yo):
        # floating-point absorption: c + e with e -> 0 (open at 0) and c != 0 rounds to c itself, so the end point is
        # attained; an open end survives an addition only when the operand that carries it is not at 0 (or both are at 0)
        if xo and not yo and x == 0.0 and y != 0.0 and not math.isinf(y):
            return False
        if yo and not xo and y == 0.0 and x != 0.0 and not math.isinf(x):
            return False
        return xo or yo
    return Itv(a.lo + b.lo if not (math.isinf(a.lo) and math.isinf(b.lo) and a.lo != b.lo) else -INF,
               a.hi + b.hi if not (math.isinf(a.hi) and math.isinf(b.hi) and a.hi != b.hi) else INF,
               _open(a.lo, a.lo_open, b.lo, b.lo_open), _open(a.hi, a.hi_open, b.hi, b.hi_open), n, a.isint and b.isint)


def sub(a, b):
    return add(a, neg(b))


def _mul_ep(x, xo, y, yo):
    """product of two endpoints with openness; 0*inf := 0 (closed iff the 0 is closed)."""
    if x == 0 or y == 0:
        # zero endpoint attained iff the zero endpoint itself is closed
        zo = (xo if x == 0 else False) or (yo if y == 0 else False)
        if x == 0 and y == 0:
            zo = xo or yo
        elif x == 0:
            zo = xo
        else:
            zo = yo
        return 0.0, zo
    return x * y, (xo or yo)


def mul(a, b):
    n = _nanres(a, b)
    if a.empty or b.empty:
        return Itv(empty=True, nan=n)
    cands = [_mul_ep(a.lo, a.lo_open, b.lo, b.lo_open), _mul_ep(a.lo, a.lo_open, b.hi, b.hi_open),
             _mul_ep(a.hi, a.hi_open, b.lo, b.lo_open), _mul_ep(a.hi, a.hi_open, b.hi, b.hi_open)]
    # if either interval contains 0 as an interior/closed point the product contains 0 (closed)
    if a.contains(0.0) or b.contains(0.0):
        cands.append((0.0, False))
    lo = min(c[0] for c in cands)
    hi = max(c[0] for c in cands)
    lo_o = all(c[1] for c in cands if c[0] == lo)
    hi_o = all(c[1] for c in cands if c[0] == hi)
    # an attained infinity times an attained zero is NaN (inf * 0)
    if ((a.contains(INF) or a.contains(-INF)) and b.contains(0.0)) or ((b.contains(INF) or b.contains(-INF)) and a.contains(0.0)):
        n = True
    return Itv(lo, hi, lo_o, hi_o, n, a.isint and b.isint)


def square(a):
    if a.empty:
        return a
    m = mul(a, a)
    lo, lo_o = m.lo, m.lo_open
    if a.contains(0.0):
        lo, lo_o = 0.0, False
    elif a.gt0():
        lo, lo_o = a.lo * a.lo, a.lo_open
    elif a.lt0():
        lo, lo_o = a.hi * a.hi, a.hi_open
    else:
        lo, lo_o = 0.0, True
    return Itv(max(lo, 0.0), m.hi, lo_o, m.hi_open, a.nan, a.isint)


def recip(b):
    """1/b for b not containing 0."""
    if b.empty:
        return b
    assert b.nonzero()
    if b.gt0():
        lo = 0.0 if b.hi == INF else 1.0 / b.hi
        lo_o = True if b.hi == INF else b.hi_open
        hi = INF if b.lo == 0 else 1.0 / b.lo
        hi_o = True if b.lo == 0 else b.lo_open
        return Itv(lo, hi, lo_o, hi_o, b.nan)
    return neg(recip(neg(b)))


def div(a, b):
    """a/b; caller has checked b nonzero (else returns TOP-ish)."""
    n = _nanres(a, b)
    if a.empty or b.empty:
        return Itv(empty=True, nan=n)
    if not b.nonzero():
        return Itv(nan=n)
    return replace(mul(a, recip(b)), nan=n, isint=False)


def absv(a):
    if a.empty:
        return a
    if a.ge0():
        return a
    if a.le0():
        return neg(a)
    n = neg(a)
    hi, hi_o = (a.hi, a.hi_open) if a.hi > n.hi else ((n.hi, n.hi_open) if n.hi > a.hi else (a.hi, a.hi_open and n.hi_open))
    return Itv(0.0, hi, False, hi_o, a.nan, a.isint)


def vmax(a, b):
    n = _nanres(a, b)
    if a.empty or b.empty:
        return Itv(empty=True, nan=n)
    lo, lo_o = (a.lo, a.lo_open) if a.lo > b.lo else ((b.lo, b.lo_open) if b.lo > a.lo else (a.lo, a.lo_open and b.lo_open))
    hi, hi_o = (a.hi, a.hi_open) if a.hi > b.hi else ((b.hi, b.hi_open) if b.hi > a.hi else (a.hi, a.hi_open and b.hi_open))
    return Itv(lo, hi, lo_o, hi_o, n, a.isint and b.isint)


def vmin(a, b):
    return neg(vmax(neg(a), neg(b)))


def mono_inc(a, f, lo_lim=-INF, hi_lim=INF):
    """image of a under an increasing function f (f may return ±inf at the ends)."""
    if a.empty:
        return a
    def g(x, lim):
        try:
            return f(x)
        except (ValueError, OverflowError):
            return lim
    lo = g(a.lo, lo_lim) if a.lo != -INF else lo_lim
    hi = g(a.hi, hi_lim) if a.hi != INF else hi_lim
    return Itv(lo, hi, a.lo_open, a.hi_open, a.nan)


def exp(a):
    r = mono_inc(a, math.exp, 0.0, INF)
    if not r.empty and r.lo == 0.0 and a.lo == -INF:
        r = replace(r, lo_open=True)
    return r


def log(a):
    """log of the positive part (caller has flagged non-positive)."""
    if a.empty:
        return a
    p = meet(a, Itv(0.0, INF, True, False))
    if p.empty:
        return Itv(nan=a.nan)
    lo = -INF if p.lo == 0 else math.log(p.lo)
    hi = INF if p.hi == INF else math.log(p.hi)
    return Itv(lo, hi, True if p.lo == 0 else p.lo_open, p.hi_open, a.nan)


def log1p(a):
    """log(1 + x) of the part above -1, computed without forming 1 + x (no absorption: log1p(x) = 0 only at x = 0)"""
    if a.empty:
        return a
    p = meet(a, Itv(-1.0, INF, True, False))
    if p.empty:
        return Itv(nan=a.nan)
    lo = -INF if p.lo == -1.0 else math.log1p(p.lo)
    hi = INF if p.hi == INF else math.log1p(p.hi)
    return Itv(lo, hi, True if p.lo == -1.0 else p.lo_open, p.hi_open, a.nan)


def sqrt(a):
    if a.empty:
        return a
    p = meet(a, Itv(0.0, INF, False, False))
    if p.empty:
        return Itv(nan=a.nan)
    return Itv(math.sqrt(p.lo), INF if p.hi == INF else math.sqrt(p.hi), p.lo_open, p.hi_open, a.nan)


def floor(a):
    if a.empty:
        return a
    lo = a.lo if math.isinf(a.lo) else float(math.floor(a.lo))
    if math.isinf(a.hi):
        hi = a.hi
    else:
        hi = float(math.floor(a.hi))
        if a.hi_open and a.hi == hi:
            hi -= 1.0
    return Itv(lo, hi, math.isinf(lo) and a.lo_open, math.isinf(hi) and a.hi_open, a.nan, True).norm()


def powv(a, b):
    """a ** b, coarse but sign-exact in the cases the package uses."""
    n = _nanres(a, b)
    if a.empty or b.empty:
        return Itv(empty=True, nan=n)
    if b.is_point() and b.lo == 2.0:
        return replace(square(a), nan=n)
    if b.is_point() and b.isint and b.lo >= 0:
        k = int(b.lo)
        r = Itv(1.0, 1.0, False, False, isint=True)
        for _ in range(min(k, 64)):
            r = mul(r, a)
        if k % 2 == 0 and k > 0:
            r = meet(r, Itv(0.0, INF, False, False)) if not r.empty else r
        return replace(r, nan=n, isint=a.isint)
    if a.ge0() and b.is_point() and b.lo > 0 and not math.isinf(b.lo):
        # x -> x ** c is increasing on [0, inf) for c > 0: the image of the end points, widened by one ulp where it is not exact
        def ep(x, up):
            if x == 0.0:
                return 0.0
            if math.isinf(x):
                return INF
            try:
                v = x ** b.lo
            except OverflowError:
                return INF
            return math.nextafter(v, INF if up else 0.0)
        lo, hi = ep(a.lo, False), ep(a.hi, True)
        exact_lo = a.lo == 0.0
        return Itv(lo, hi, a.lo_open if exact_lo else False, a.hi_open if math.isinf(hi) else False, n)
    if a.gt0():
        return Itv(0.0, INF, True, True, n)
    if a.ge0():
        if b.gt0():
            return Itv(0.0, INF, False, True, n)
        if b.ge0():
            return Itv(0.0, INF, False, True, n)
        return Itv(0.0, INF, False, False, n)
    return Itv(nan=n)


def div_nonzero_part(a, b):
    """a / (b minus {0}) : result on the executions that do not raise."""
    n = a.nan or b.nan
    if a.empty or b.empty:
        return Itv(empty=True, nan=n)
    pos = meet(Itv(b.lo, b.hi, b.lo_open, b.hi_open), Itv(0.0, INF, True, False))
    negp = meet(Itv(b.lo, b.hi, b.lo_open, b.hi_open), Itv(-INF, 0.0, False, True))
    r = None
    for part in (pos, negp):
        if not part.empty:
            q = div(Itv(a.lo, a.hi, a.lo_open, a.hi_open), part)
            r = q if r is None else join(r, q)
    if r is None:
        return Itv(empty=True, nan=n)
    return Itv(r.lo, r.hi, r.lo_open, r.hi_open, n, False)
