"""pdsa -- pydsol static analysis.

Repository-specific static checkers deciding the properties C01..C18 of
averbraeck/pydsol-core from the *source text* of /repo/src/pydsol/core.
Nothing in this package imports or executes pydsol.
"""
__all__ = ["core", "cfg", "guards", "report"]
