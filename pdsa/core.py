"""E1 -- loader and program index.

Parses every module of the package under analysis (never imports it), builds a
class table with bases resolved across modules, a linearised MRO, method /
property resolution, class-level constants, and a few AST helpers shared by
all rules.
"""
from __future__ import annotations

import ast
import glob
import hashlib
import os
import warnings

PKG_REL = os.path.join('src', 'pydsol', 'core')
MIN_MODULES = 14


class AnalysisError(Exception):
    """The analysis itself could not be carried out (exit 2, never exit 1)."""


# ----------------------------------------------------------------- helpers
def unparse(node) -> str:
    try:
        return ast.unparse(node)
    except Exception:                                   # pragma: no cover
        return '<%s>' % type(node).__name__


def short(node, n=90) -> str:
    t = ' '.join(unparse(node).split())
    return t if len(t) <= n else t[:n - 1] + '…'


def is_doc(stmt) -> bool:
    return isinstance(stmt, ast.Expr) and isinstance(stmt.value, ast.Constant) \
        and isinstance(stmt.value.value, str)


def strip_doc(body):
    return [s for s in body if not is_doc(s)]


def body_of(fn):
    """statements of a function without docstring / bare string statements"""
    return strip_doc(fn.body)


def walk_shallow(node):
    """ast.walk that does not descend into nested function / class / lambda bodies"""
    todo = [node]
    first = True
    while todo:
        n = todo.pop()
        if not first and isinstance(n, (ast.FunctionDef, ast.AsyncFunctionDef, ast.ClassDef, ast.Lambda)):
            continue
        first = False
        yield n
        todo.extend(ast.iter_child_nodes(n))


def calls_in(node):
    return [n for n in walk_shallow(node) if isinstance(n, ast.Call)]


def is_self_attr(node, attr=None) -> bool:
    return isinstance(node, ast.Attribute) and isinstance(node.value, ast.Name) \
        and node.value.id == 'self' and (attr is None or node.attr == attr)


def is_super_call(node) -> bool:
    """node is the expression `super()` / `super(X, self)`"""
    return isinstance(node, ast.Call) and isinstance(node.func, ast.Name) and node.func.id == 'super'


def mangle(cls_name: str, attr: str) -> str:
    if attr.startswith('__') and not attr.endswith('__'):
        return '_' + cls_name.lstrip('_') + attr
    return attr


def decorators(fn):
    return [unparse(d) for d in fn.decorator_list]


def const_value(node):
    """literal value of a constant expression or the sentinel NOCONST"""
    try:
        return ast.literal_eval(node)
    except Exception:
        return NOCONST


class _NoConst:
    def __repr__(self):
        return 'NOCONST'


NOCONST = _NoConst()


# ----------------------------------------------------------------- model
class Module:
    def __init__(self, name, path, raw: bytes):
        self.name = name
        self.path = path
        self.raw = raw
        self.digest = hashlib.sha256(raw).hexdigest()
        text = raw.decode('utf-8')
        self.crlf = '\r\n' in text
        self.src = text.replace('\r\n', '\n').replace('\r', '\n')
        with warnings.catch_warnings():
            warnings.simplefilter('ignore')
            self.tree = ast.parse(self.src, filename=path)
        self.lines = self.src.split('\n')

    def segment(self, node) -> str:
        return ast.get_source_segment(self.src, node) or ''


class ClassInfo:
    def __init__(self, name, node, module: Module):
        self.name = name
        self.node = node
        self.module = module
        self.bases = []          # base class names (Generic[...] subscripts stripped)
        for b in node.bases:
            if isinstance(b, ast.Name):
                self.bases.append(b.id)
            elif isinstance(b, ast.Subscript):
                v = b.value
                self.bases.append(v.id if isinstance(v, ast.Name) else v.attr if isinstance(v, ast.Attribute) else unparse(v))
            elif isinstance(b, ast.Attribute):
                self.bases.append(b.attr)
        self.methods = {}        # name -> FunctionDef (getter for properties)
        self.setters = {}        # property name -> FunctionDef
        self.props = set()
        self.assigns = {}        # class-level NAME = <ast expr>  (last wins)
        self.all_assigns = []    # (name, value node, stmt)
        for m in node.body:
            if isinstance(m, (ast.FunctionDef, ast.AsyncFunctionDef)):
                decos = decorators(m)
                if any(d.endswith('.setter') for d in decos):
                    self.setters[m.name] = m
                    continue
                if any(d.endswith('.deleter') for d in decos):
                    continue
                self.methods[m.name] = m
                if 'property' in decos or 'cached_property' in decos or 'functools.cached_property' in decos:
                    self.props.add(m.name)           # a memoised property is read like a property; that its memo is dropped in time is a rule of its own
            elif isinstance(m, ast.Assign):
                for t in m.targets:
                    if isinstance(t, ast.Name):
                        self.assigns[t.id] = m.value
                        self.all_assigns.append((t.id, m.value, m))
            elif isinstance(m, ast.AnnAssign) and isinstance(m.target, ast.Name) and m.value is not None:
                self.assigns[m.target.id] = m.value
                self.all_assigns.append((m.target.id, m.value, m))

    def const(self, name):
        if name in self.assigns:
            return const_value(self.assigns[name])
        return NOCONST

    @property
    def file(self):
        return self.module.name + '.py'


class Program:
    """All modules of <root>/src/pydsol/core."""

    def __init__(self, root='/repo', normalize=True):
        self.root = root
        self.pkg = os.path.join(root, PKG_REL)
        self.modules = {}
        self.classes = {}
        self.funcs = {}          # module-level functions: name -> (Module, FunctionDef)
        paths = sorted(glob.glob(os.path.join(self.pkg, '*.py')))
        if len(paths) < MIN_MODULES:
            raise AnalysisError(f'only {len(paths)} modules under {self.pkg}; expected >= {MIN_MODULES}')
        for p in paths:
            name = os.path.basename(p)[:-3]
            try:
                with open(p, 'rb') as fh:
                    m = Module(name, p, fh.read())
            except SyntaxError as e:
                raise AnalysisError(f'{p} does not parse: {e}')
            self.modules[name] = m
        # E0: constructs introduced under names the rules do not know (extracted helpers, named constants, temporaries) are
        # rewritten in terms of the known ones before anything is analysed (pdsa/normalize.py; set PDSA_NO_NORMALIZE=1 to see raw)
        self.normalisation = []
        if normalize and os.environ.get('PDSA_NO_NORMALIZE') != '1':
            from . import normalize as _norm
            try:
                self.normalisation = _norm.run({n: m.tree for n, m in self.modules.items()})
            except RecursionError as e:                               # pragma: no cover
                raise AnalysisError(f'normalisation failed: {e}')
        for name, m in self.modules.items():
            for n in m.tree.body:
                if isinstance(n, ast.ClassDef):
                    if n.name in self.classes:
                        raise AnalysisError(f'class {n.name} defined twice ({self.classes[n.name].module.name}, {name})')
                    self.classes[n.name] = ClassInfo(n.name, n, m)
                elif isinstance(n, ast.FunctionDef):
                    self.funcs[n.name] = (m, n)
        self._mro = {}
        self._subs = None

    # ---------------------------------------------------------- digests
    def digest(self, module_names=None):
        h = hashlib.sha256()
        for n in sorted(module_names or self.modules):
            h.update(n.encode())
            h.update(self.modules[n].digest.encode())
        return h.hexdigest()[:16]

    # ---------------------------------------------------------- anchors
    def module(self, name) -> Module:
        if name not in self.modules:
            raise AnalysisError(f'anchor vanished: module {name}.py')
        return self.modules[name]

    def cls(self, name) -> ClassInfo:
        if name not in self.classes:
            raise AnalysisError(f'anchor vanished: class {name}')
        return self.classes[name]

    def method(self, cname, mname, inherited=True):
        """FunctionDef of cname.mname (resolved through the MRO); anchor failure otherwise"""
        if inherited:
            ci, fn = self.resolve(cname, mname)
        else:
            ci = self.cls(cname)
            fn = ci.methods.get(mname)
        if fn is None:
            raise AnalysisError(f'anchor vanished: method {cname}.{mname}')
        return fn

    # ---------------------------------------------------------- hierarchy
    def mro(self, cname):
        if cname in self._mro:
            return self._mro[cname]
        if cname not in self.classes:
            return [cname]
        seqs = [self.mro(b) for b in self.classes[cname].bases if b in self.classes]
        seqs.append([b for b in self.classes[cname].bases if b in self.classes])
        res = [cname]
        seqs = [list(s) for s in seqs if s]
        while seqs:
            for s in seqs:
                cand = s[0]
                if not any(cand in t[1:] for t in seqs):
                    break
            else:
                raise AnalysisError(f'inconsistent MRO for {cname}')
            res.append(cand)
            for s in seqs:
                if s and s[0] == cand:
                    del s[0]
            seqs = [s for s in seqs if s]
        self._mro[cname] = res
        return res

    def resolve(self, cname, mname, after=None):
        order = self.mro(cname)
        if after is not None and after in order:
            order = order[order.index(after) + 1:]
        for c in order:
            ci = self.classes.get(c)
            if ci is not None and mname in ci.methods:
                return ci, ci.methods[mname]
        return None, None

    def resolve_attr(self, cname, attr):
        """class-level assignment `attr = <expr>` through the MRO -> (ClassInfo, expr) or (None, None)"""
        for c in self.mro(cname):
            ci = self.classes.get(c)
            if ci is not None and attr in ci.assigns:
                return ci, ci.assigns[attr]
        return None, None

    def is_prop(self, cname, attr):
        for c in self.mro(cname):
            ci = self.classes.get(c)
            if ci is not None and attr in ci.methods:
                return attr in ci.props
        return False

    def const(self, cname, attr):
        ci, expr = self.resolve_attr(cname, attr)
        return NOCONST if expr is None else const_value(expr)

    def subclasses(self, cname, strict=True):
        out = [c for c in self.classes if cname in self.mro(c) and (c != cname or not strict)]
        return sorted(out)

    def is_subclass(self, cname, base):
        return base in self.mro(cname)

    def functions(self):
        """every (ClassInfo|None, FunctionDef, Module) in the package, including setters"""
        for ci in self.classes.values():
            for fn in list(ci.methods.values()) + list(ci.setters.values()):
                yield ci, fn, ci.module
        for (m, fn) in self.funcs.values():
            yield None, fn, m

    # ---------------------------------------------------------- simple property inlining
    def simple_return(self, cname, name):
        """if cname.name is a method/property whose body is a single `return <expr>`, that expr"""
        ci, fn = self.resolve(cname, name)
        if fn is None:
            return None
        b = body_of(fn)
        if len(b) == 1 and isinstance(b[0], ast.Return) and b[0].value is not None:
            return b[0].value
        return None

    def predicate_expr(self, cname, name):
        """the boolean expression computed by a method written as a decision list of returns
        (`if A: return True` / `return B`  ->  `A or B`), or None"""
        ci, fn = self.resolve(cname, name)
        if fn is None:
            return None

        def is_const(e, v):
            return isinstance(e, ast.Constant) and e.value is v

        def conv(stmts):
            if not stmts:
                return None
            s0 = stmts[0]
            if isinstance(s0, ast.Return):
                return s0.value
            if isinstance(s0, ast.If) and len(s0.body) == 1 and isinstance(s0.body[0], ast.Return) and s0.body[0].value is not None:
                v1 = s0.body[0].value
                rest = conv(s0.orelse if s0.orelse else stmts[1:])
                if rest is None:
                    return None
                t = s0.test
                if is_const(v1, True):
                    return ast.BoolOp(op=ast.Or(), values=[t, rest])
                if is_const(v1, False):
                    return ast.BoolOp(op=ast.And(), values=[ast.UnaryOp(op=ast.Not(), operand=t), rest])
                if is_const(rest, False):
                    return ast.BoolOp(op=ast.And(), values=[t, v1])
                if is_const(rest, True):
                    return ast.BoolOp(op=ast.Or(), values=[ast.UnaryOp(op=ast.Not(), operand=t), v1])
                return ast.IfExp(test=t, body=v1, orelse=rest)
            return None
        b = body_of(fn)
        if len(b) < 2:
            return None
        e = conv(b)
        if e is None:
            return None
        return ast.fix_missing_locations(ast.copy_location(e, b[0]))

    def enum_members(self, cname):
        """NAME -> literal for the class-level constant assignments of an enum-like class"""
        ci = self.cls(cname)
        out = {}
        for (n, v, _s) in ci.all_assigns:
            c = const_value(v)
            if c is not NOCONST and isinstance(c, (int, str)) and not isinstance(c, bool):
                out[n] = c
        return out


def where(ci, fn) -> str:
    return f'{ci.name}.{fn.name}' if ci is not None else fn.name
