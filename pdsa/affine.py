"""E8: symbolic affine bounds.

Evaluates an expression to a pair of *linear forms over named symbols* (lower bound, upper bound, each open or closed)
under a small set of linear assumptions (e.g. ``hi - lo >= 0``).  It exists for the handful of range clauses whose
bounds are themselves parameters (``next_int(lo, hi)`` lies in ``[lo, hi]``; ``DistUniform.draw()`` lies in
``[lo, hi)``) which the interval domain of E7 cannot express.  Everything is exact rational arithmetic over the
reals; nothing is executed.

Rules (A any value, U a value known to lie in [0, 1) or [0, 1]):
  c                      -> [c, c]
  symbol s               -> [s, s]
  A + B, A - B, -A       -> bounds add / cross-subtract / swap
  c * A                  -> scaled (swapped when c < 0)
  A * U   with A >= 0    -> [0, ub(A)]; open at ub(A) when U < 1 and A > 0
  floor(A), int(A>=0)    -> lb: lb(A) if integral-valued; ub: ub(A) - 1 if open and integral-valued, ub(A) if closed
anything else            -> unbounded on that side
"""
from __future__ import annotations

import ast
from fractions import Fraction

from .core import unparse


class Lin:
    """const + sum coef * symbol (Fractions)"""
    __slots__ = ('c', 't')

    def __init__(self, c=0, t=None):
        self.c = Fraction(c)
        self.t = {k: Fraction(v) for k, v in (t or {}).items() if v != 0}

    def __add__(self, o):
        t = dict(self.t)
        for k, v in o.t.items():
            t[k] = t.get(k, 0) + v
        return Lin(self.c + o.c, t)

    def scale(self, k):
        return Lin(self.c * k, {s: v * k for s, v in self.t.items()})

    def __sub__(self, o):
        return self + o.scale(-1)

    def is_const(self):
        return not self.t

    def integral(self, intsyms):
        return self.c.denominator == 1 and all(v.denominator == 1 and s in intsyms for s, v in self.t.items())

    def __eq__(self, o):
        return isinstance(o, Lin) and self.c == o.c and self.t == o.t

    def __hash__(self):
        return hash((self.c, tuple(sorted(self.t.items()))))

    def __repr__(self):
        parts = []
        for s, v in sorted(self.t.items()):
            parts.append(('' if v == 1 else '-' if v == -1 else f'{v}*') + s)
        if self.c != 0 or not parts:
            parts.append(str(self.c))
        return ' + '.join(parts).replace('+ -', '- ')


class AVal:
    """lb/ub: (Lin, strict) or None"""
    __slots__ = ('lb', 'ub', 'isint')

    def __init__(self, lb=None, ub=None, isint=False):
        self.lb, self.ub, self.isint = lb, ub, isint

    @staticmethod
    def exact(lin, isint=False):
        return AVal((lin, False), (lin, False), isint)

    def __repr__(self):
        l = '(-inf' if self.lb is None else ('(' if self.lb[1] else '[') + repr(self.lb[0])
        u = '+inf)' if self.ub is None else repr(self.ub[0]) + (')' if self.ub[1] else ']')
        return f'{l}, {u}' + (' int' if self.isint else '')


class Affine:
    def __init__(self, syms, assumptions=(), units=None, text=unparse):
        """syms: {text: is_int}; assumptions: [(Lin, strict)] each meaning lin >= 0 (> 0 when strict);
        units: {text: (hi_strict)} expressions known to lie in [0, 1) (True) or [0, 1] (False)"""
        self.syms = dict(syms)
        self.intsyms = {s for s, i in self.syms.items() if i}
        self.assumptions = list(assumptions)
        self.units = dict(units or {})
        self.text = text
        self.unknown = []           # sub-expressions that could not be bounded (for diagnostics)

    # ---- proving -------------------------------------------------------------------------------------------------
    def nonneg(self, lin, strict=False):
        """is lin >= 0 (> 0) a consequence of the assumptions?  (single-assumption multiples + constants)"""
        if lin.is_const():
            return lin.c > 0 if strict else lin.c >= 0
        for (a, a_strict) in self.assumptions:
            # find k >= 0 with lin - k*a constant
            k = None
            for s, v in lin.t.items():
                av = a.t.get(s)
                if not av:
                    k = None
                    break
                kk = v / av
                if k is None:
                    k = kk
                elif k != kk:
                    k = None
                    break
            if k is None or k <= 0 or set(a.t) != set(lin.t):
                continue
            rest = lin.c - k * a.c
            if rest > 0 or (rest == 0 and (not strict or a_strict)):
                return True
        return False

    def le(self, a, b, strict=False):
        return self.nonneg(b - a, strict)

    # ---- evaluation ----------------------------------------------------------------------------------------------
    def eval(self, e, env=None):
        env = env or {}
        if isinstance(e, ast.Constant) and isinstance(e.value, (int, float)) and not isinstance(e.value, bool):
            if isinstance(e.value, float) and (e.value != e.value or e.value in (float('inf'), float('-inf'))):
                return AVal()
            return AVal.exact(Lin(Fraction(e.value)), isinstance(e.value, int))
        t = self.text(e)
        if t in self.syms:
            return AVal.exact(Lin(0, {t: 1}), self.syms[t])
        if t in self.units:
            return AVal((Lin(0), False), (Lin(1), bool(self.units[t])), False)
        if isinstance(e, ast.Name) and e.id in env:
            return env[e.id]
        if isinstance(e, ast.UnaryOp) and isinstance(e.op, ast.USub):
            return self.neg(self.eval(e.operand, env))
        if isinstance(e, ast.UnaryOp) and isinstance(e.op, ast.UAdd):
            return self.eval(e.operand, env)
        if isinstance(e, ast.BinOp):
            a, b = self.eval(e.left, env), self.eval(e.right, env)
            if isinstance(e.op, ast.Add):
                return self.add(a, b)
            if isinstance(e.op, ast.Sub):
                return self.add(a, self.neg(b))
            if isinstance(e.op, ast.Mult):
                return self.mul(a, b)
            self.unknown.append(t)
            return AVal()
        if isinstance(e, ast.Call) and len(e.args) == 1 and not e.keywords:
            f = unparse(e.func)
            if f in ('math.floor', 'floor'):
                return self.floor(self.eval(e.args[0], env))
            if f in ('int', 'math.trunc'):
                a = self.eval(e.args[0], env)
                if a.isint:
                    return a
                if a.lb is not None and self.nonneg(a.lb[0]):
                    return self.floor(a)
                self.unknown.append(t + ' (truncation of a value not known to be >= 0)')
                return AVal(isint=True)
            if f == 'float':
                a = self.eval(e.args[0], env)
                return AVal(a.lb, a.ub, False)
        self.unknown.append(t)
        return AVal()

    @staticmethod
    def neg(a):
        return AVal(None if a.ub is None else (a.ub[0].scale(-1), a.ub[1]), None if a.lb is None else (a.lb[0].scale(-1), a.lb[1]), a.isint)

    @staticmethod
    def add(a, b):
        lb = None if a.lb is None or b.lb is None else (a.lb[0] + b.lb[0], a.lb[1] or b.lb[1])
        ub = None if a.ub is None or b.ub is None else (a.ub[0] + b.ub[0], a.ub[1] or b.ub[1])
        return AVal(lb, ub, a.isint and b.isint)

    def _const(self, a):
        if a.lb is not None and a.ub is not None and a.lb[0] == a.ub[0] and a.lb[0].is_const() and not a.lb[1] and not a.ub[1]:
            return a.lb[0].c
        return None

    def _unit(self, a):
        """None | hi_strict when a is known to lie in [0,1) / [0,1]"""
        if a.lb is None or a.ub is None or not a.lb[0].is_const() or not a.ub[0].is_const():
            return None
        if a.lb[0].c >= 0 and a.ub[0].c <= 1:
            return a.ub[1] or a.ub[0].c < 1
        return None

    def mul(self, a, b):
        for (x, y) in ((a, b), (b, a)):
            c = self._const(x)
            if c is not None:
                if c == 0:
                    return AVal.exact(Lin(0), x.isint and y.isint)
                lb = None if y.lb is None else (y.lb[0].scale(c), y.lb[1])
                ub = None if y.ub is None else (y.ub[0].scale(c), y.ub[1])
                if c < 0:
                    lb, ub = ub, lb
                return AVal(lb, ub, x.isint and y.isint)
        for (x, u) in ((a, b), (b, a)):
            us = self._unit(u)
            if us is None or x.lb is None:
                continue
            if not self.nonneg(x.lb[0]):
                continue
            ub = None
            if x.ub is not None:
                pos = self.nonneg(x.lb[0], strict=True) or (x.lb[1] and self.nonneg(x.lb[0]))
                ub = (x.ub[0], bool(x.ub[1] or (us and pos)))
            return AVal((Lin(0), False), ub, False)
        self.unknown.append('product of two non-constant, non-unit factors')
        return AVal()

    def floor(self, a):
        lb = ub = None
        if a.lb is not None and a.lb[0].integral(self.intsyms):
            lb = (a.lb[0], False)
        elif a.lb is not None and a.lb[0].is_const():
            import math
            lb = (Lin(math.floor(a.lb[0].c)), False)
        if a.ub is not None:
            if a.ub[0].integral(self.intsyms):
                ub = (a.ub[0] - Lin(1), False) if a.ub[1] else (a.ub[0], False)
            elif a.ub[0].is_const():
                import math
                ub = (Lin(math.floor(a.ub[0].c)), False)
            else:
                ub = (a.ub[0], False)
        return AVal(lb, ub, True)


def straight_line_env(aff, fn):
    """environment of the top-level single assignments `name = expr` of a function body (each name assigned once)"""
    counts = {}
    for n in ast.walk(fn):
        if isinstance(n, ast.Name) and isinstance(n.ctx, ast.Store):
            counts[n.id] = counts.get(n.id, 0) + 1
    env = {}
    for st in fn.body:
        tgt = val = None
        if isinstance(st, ast.Assign) and len(st.targets) == 1 and isinstance(st.targets[0], ast.Name):
            tgt, val = st.targets[0].id, st.value
        elif isinstance(st, ast.AnnAssign) and isinstance(st.target, ast.Name) and st.value is not None:
            tgt, val = st.target.id, st.value
        if tgt and counts.get(tgt) == 1:
            env[tgt] = aff.eval(val, env)
    return env
