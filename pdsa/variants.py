"""Variants of the current tree for the checker self-test (pdsa.selftest).

seeded(name, expect_rule, [(module, old, new)], key=fragment)  -- must be reported by that rule
benign(name, [(module, old, new)])                              -- behaviour-preserving rewrite: must stay silent
The anchor texts are exact fragments of the current sources (LF line ends); a variant whose anchor is gone is skipped.
"""
VARIANTS = {}


def seeded(pid, name, expect, edits, key='', **kw):
    VARIANTS.setdefault(pid, []).append(dict(name=name, kind='seeded', expect=expect, edits=edits, key=key, **kw))


def benign(pid, name, edits):
    VARIANTS.setdefault(pid, []).append(dict(name=name, kind='benign', edits=edits))


# =====================================================================================================  C01
EL_REMOVE = ("            self._event_list.remove((event.time, -event.priority,\n"
             "                                     event._id, event))\n"
             "            heapq.heapify(self._event_list)\n")
seeded('C01', 'heapify removed from remove()', 'R1.1',
       [('eventlist', EL_REMOVE, "            self._event_list.remove((event.time, -event.priority,\n                                     event._id, event))\n")])
seeded('C01', 'add() appends instead of heappush', 'R1.1',
       [('eventlist', "        heapq.heappush(self._event_list, (event.time, -event.priority,\n                                          event._id, event))",
         "        self._event_list.append((event.time, -event.priority,\n                                          event._id, event))")])
seeded('C01', 'priority sign dropped in the heap key', 'R1.2',
       [('eventlist', "        heapq.heappush(self._event_list, (event.time, -event.priority,\n", "        heapq.heappush(self._event_list, (event.time, event.priority,\n")])
seeded('C01', 'contains() looks up a key without the priority sign', 'R1.2',
       [('eventlist', "        return self._event_list.count((event.time, -event.priority,\n", "        return self._event_list.count((event.time, event.priority,\n")],
       key='contains')
seeded('C01', 'peek_first returns the id component', 'R1.5',
       [('eventlist', "        return self._event_list[0][3]", "        return self._event_list[0][2]")], key='peek_first')
seeded('C01', 'pop_first without emptiness guard', 'R1.5',
       [('eventlist', "        if self.is_empty():\n            return None\n        return heapq.heappop(self._event_list)[3]", "        return heapq.heappop(self._event_list)[3]")],
       key='pop_first')
seeded('C01', '__cmp__: priority branches swapped', 'R1.6',
       [('simevent', "        if (self._priority < other._priority):\n            return 1", "        if (self._priority < other._priority):\n            return -1"),
        ('simevent', "        if (self._priority > other._priority):\n            return -1", "        if (self._priority > other._priority):\n            return 1")],
       key='__cmp__')
seeded('C01', '__lt__ made non-strict', 'R1.6',
       [('simevent', "    def __lt__(self, other: SimEventInterface) -> bool:\n        return self.__cmp__(other) < 0", "    def __lt__(self, other: SimEventInterface) -> bool:\n        return self.__cmp__(other) <= 0")],
       key='__lt__')
seeded('C01', 'setter added for SimEvent.time', 'R1.3',
       [('simevent', "    @property \n    def priority(self) -> int: \n", "    @time.setter\n    def time(self, value):\n        self._absolute_time = value\n\n    @property \n    def priority(self) -> int: \n")])
seeded('C01', 'id counter can be reset from outside', 'R1.4',
       [('simevent', "    def __cmp__(self, other: SimEventInterface) -> int:", "    @classmethod\n    def reset_counter(cls):\n        cls.__event_counter = 0\n\n    def __cmp__(self, other: SimEventInterface) -> int:")])
seeded('C01', 'size() off by one', 'R1.5',
       [('eventlist', "        return len(self._event_list)", "        return len(self._event_list) - 1")], key='size')
seeded('C01', 'backing list handed out', 'R1.1',
       [('eventlist', "    def __str__(self) -> str:\n        s = \"[\"", "    def events(self):\n        return self._event_list\n\n    def __str__(self) -> str:\n        s = \"[\"")], key='escape')
benign('C01', 'contains via `in` instead of count() > 0',
       [('eventlist', "        return self._event_list.count((event.time, -event.priority,\n                                       event._id, event)) > 0",
         "        return (event.time, -event.priority,\n                                       event._id, event) in self._event_list")])
benign('C01', 'remove via index / swap-with-last / sift',
       [('eventlist', EL_REMOVE,
         "            i = self._event_list.index((event.time, -event.priority,\n                                     event._id, event))\n"
         "            last = self._event_list.pop()\n"
         "            if i < len(self._event_list):\n                self._event_list[i] = last\n                heapq._siftup(self._event_list, i)\n                heapq._siftdown(self._event_list, 0, i)\n")])
benign('C01', 'is_empty as `not list`',
       [('eventlist', "        return self.size() == 0", "        return not self._event_list")])
benign('C01', 'key written with 0 - priority',
       [('eventlist', "        heapq.heappush(self._event_list, (event.time, -event.priority,\n", "        heapq.heappush(self._event_list, (event.time, 0 - event.priority,\n"),
        ('eventlist', "        return self._event_list.count((event.time, -event.priority,\n", "        return self._event_list.count((event.time, 0 - event.priority,\n"),
        ('eventlist', "            self._event_list.remove((event.time, -event.priority,\n", "            self._event_list.remove((event.time, 0 - event.priority,\n")])

# =====================================================================================================  C02
RUN_EXEC = "            self._simulator_time = event.time\n            try:\n                event.execute()\n"
seeded('C02', 'execute() deleted from _run', 'R2.1',
       [('simulator', RUN_EXEC, "            self._simulator_time = event.time\n            try:\n                pass\n")])
seeded('C02', 'execute() before the clock write in _run', 'R2.1',
       [('simulator', RUN_EXEC, "            try:\n                event.execute()\n                self._simulator_time = event.time\n")], key='execute-before-clock')
seeded('C02', 'execute() doubled in _run', 'R2.1',
       [('simulator', RUN_EXEC, "            self._simulator_time = event.time\n            try:\n                event.execute()\n                event.execute()\n")], key='execute-twice')
seeded('C02', 'clock set to the bound instead of the event time in _step_impl', 'R2.1',
       [('simulator', "                            event.time)\n            self._simulator_time = event.time\n            event.execute()", "                            event.time)\n            self._simulator_time = self._run_until_time\n            event.execute()")])
seeded('C02', 'admission guard back to `<` (accepts NaN)', 'R2.3',
       [('simulator', "        if not event.time >= self._simulator_time:", "        if event.time < self._simulator_time:")], key='schedule_event')
seeded('C02', 'admission guard `<=` (refuses now)', 'R2.3',
       [('simulator', "        if not event.time >= self._simulator_time:", "        if not event.time > self._simulator_time:")], key='schedule_event')
seeded('C02', 'admission guard deleted', 'R2.3',
       [('simulator', "        if not event.time >= self._simulator_time:\n            raise DSOLError(\"cannot schedule event in the past\")\n        self._eventlist.add(event)", "        self._eventlist.add(event)")])
seeded('C02', 'raw eventlist.add in a new public method', 'R2.3',
       [('simulator', "    def cancel_event(self, event: SimEventInterface):", "    def schedule_event_unchecked(self, event: SimEventInterface):\n        self._eventlist.add(event)\n        return event\n\n    def cancel_event(self, event: SimEventInterface):")],
       key='schedule_event_unchecked')
seeded('C02', 'delay compared with literal 0 again', 'R2.4',
       [('simulator', "        time = self._simulator_time + delay\n        if not time >= self._simulator_time:", "        time = self._simulator_time + delay\n        if delay < 0 or not time >= self._simulator_time:")])
seeded('C02', 'unguarded clock := bound in _run', 'R2.5',
       [('simulator', "                if self._run_until_time > self._simulator_time:\n                    self._simulator_time = self._run_until_time\n", "                self._simulator_time = self._run_until_time\n")])
seeded('C02', 'cancel_event removes and clears', 'R2.6',
       [('simulator', "        self._eventlist.remove(event)", "        self._eventlist.remove(event)\n        self._eventlist.clear()")])
benign('C02', 'admission guard as `t < clock or t != t`',
       [('simulator', "        if not event.time >= self._simulator_time:", "        if event.time < self._simulator_time or event.time != event.time:")])
benign('C02', 'clock write guarded with max()',
       [('simulator', "                if self._run_until_time > self._simulator_time:\n                    self._simulator_time = self._run_until_time\n", "                self._simulator_time = max(self._simulator_time, self._run_until_time)\n")])
benign('C02', 'popped event renamed in _step_impl',
       [('simulator', "            event: SimEventInterface = self._eventlist.pop_first()\n            self.fire_timed(event.time, Simulator.TIME_CHANGED_EVENT,\n                            event.time)\n            self._simulator_time = event.time\n            event.execute()",
         "            nxt: SimEventInterface = self._eventlist.pop_first()\n            self.fire_timed(nxt.time, Simulator.TIME_CHANGED_EVENT,\n                            nxt.time)\n            self._simulator_time = nxt.time\n            nxt.execute()")])

# =====================================================================================================  C03
HORIZON = ("            if (t > self._run_until_time or (t == self._run_until_time \\\n"
           "                    and not self._run_until_including) \n"
           "                    or self.eventlist().is_empty()):\n")
seeded('C03', 'horizon test `>=` (inclusive bound ignored)', 'R3.1',
       [('simulator', HORIZON, "            if (t >= self._run_until_time or self.eventlist().is_empty()):\n")], key='horizon')
seeded('C03', 'horizon test ignores the exclusive case', 'R3.1',
       [('simulator', HORIZON, "            if (t > self._run_until_time or self.eventlist().is_empty()):\n")], key='horizon')
seeded('C03', 'run_up_to runs inclusively', 'R3.1',
       [('simulator', "        self._start_impl(stop_time, False)", "        self._start_impl(stop_time, True)")], key='run_up_to')
seeded('C03', 'start() runs to the warm-up time', 'R3.1',
       [('simulator', "        self._start_impl(self._replication.end_sim_time, True)", "        self._start_impl(self._replication.warmup_sim_time, True)")], key='start')
seeded('C03', 'ENDING unconditional again', 'R3.2',
       [('simulator', "                if self._simulator_time >= self._replication.end_sim_time:\n                    self._replication_state = ReplicationState.ENDING\n", "                self._replication_state = ReplicationState.ENDING\n")])
seeded('C03', 'pop in _run moved before the horizon test', 'R3.3',
       [('simulator', "            # check if we are done\n            if self.eventlist().is_empty():\n                t = self._run_until_time", "            # check if we are done\n            early = self.eventlist().pop_first()\n            if self.eventlist().is_empty():\n                t = self._run_until_time")],
       key='_run')
benign('C03', 'horizon test rewritten with a local flag',
       [('simulator', HORIZON, "            beyond = t > self._run_until_time\n            at_bound = t == self._run_until_time and not self._run_until_including\n            if beyond or at_bound or self.eventlist().is_empty():\n")])
benign('C03', 'ENDING guard on `not clock < end`',
       [('simulator', "                if self._simulator_time >= self._replication.end_sim_time:\n                    self._replication_state = ReplicationState.ENDING\n", "                if not self._simulator_time < self._replication.end_sim_time:\n                    self._replication_state = ReplicationState.ENDING\n")])

# =====================================================================================================  C04
seeded('C04', 'start() writes the bound before _start_impl again', 'R4.1',
       [('simulator', "        self._start_impl(self._replication.end_sim_time, True)", "        self._run_until_time = self._replication.end_sim_time\n        self._start_impl(self._replication.end_sim_time, True)")],
       key='Simulator.start')
seeded('C04', 'stop() fires STOPPING before its guard', 'R4.1',
       [('simulator', "        if self.is_stopping_or_stopped():\n            raise DSOLError(\"cannot stop an already stopped simulator\")\n        self.fire(Simulator.STOPPING_EVENT, None)",
         "        self.fire(Simulator.STOPPING_EVENT, None)\n        if self.is_stopping_or_stopped():\n            raise DSOLError(\"cannot stop an already stopped simulator\")")], key='Simulator.stop')
seeded('C04', 'initialize clears the event list before validating', 'R4.1',
       [('simulator', "        if not isinstance(model, ModelInterface):\n            raise DSOLError(f\"model {model} not valid\")\n        if not hasattr(model, '_simulator'):\n            raise DSOLError(f\"model {model} does not have a simulator. \" + \n                \"Did you call super.__init__(...) in the model constructor?\")\n        if not isinstance(replication, ReplicationInterface):\n            raise DSOLError(f\"replication {replication} not valid\")\n        if not replication.warmup_sim_time >= replication.start_sim_time:\n            raise DSOLError(f\"replication {replication} has its warmup time before its start time\")\n        self._eventlist.clear()\n",
         "        self._eventlist.clear()\n")], key='DEVSSimulator.initialize')
seeded('C04', '_start_impl: running-guard dropped', 'R4.2',
       [('simulator', "        if self.is_starting_or_running():\n            raise DSOLError(\"cannot start a running simulator\")\n        if self._replication == None:\n            raise DSOLError(\"no replication details\")\n        if not self.is_initialized():",
         "        if self._replication == None:\n            raise DSOLError(\"no replication details\")\n        if not self.is_initialized():")], key='start')
seeded('C04', 'step(): replication-state guard `and` -> `or`', 'R4.2',
       [('simulator', "        if (self._replication_state != ReplicationState.INITIALIZED \\\n                and self.replication_state != ReplicationState.STARTED):", "        if (self._replication_state != ReplicationState.INITIALIZED \\\n                or self.replication_state != ReplicationState.STARTED):")], key='step')
seeded('C04', 'stop() admitted only in STARTED', 'R4.2',
       [('simulator', "        return not self.is_starting_or_running()", "        return not self.run_state == RunState.STARTED")], key='stop')
seeded('C04', 'clock guard `>` instead of `>=` in _start_impl', 'R4.2',
       [('simulator', "        if self._simulator_time >= self._replication.end_sim_time:\n            raise DSOLError(\"cannot start: simulator_time > run length\")\n        self._run_until_time", "        if self._simulator_time > self._replication.end_sim_time:\n            raise DSOLError(\"cannot start: simulator_time > run length\")\n        self._run_until_time")], key='start')
seeded('C04', 'STOP_EVENT fire deleted in the worker', 'R4.3',
       [('simulator', "                        self._job._run()\n                        self._job.fire_timed(self._job.simulator_time,\n                            Simulator.STOP_EVENT, None)\n", "                        self._job._run()\n")], key='START-without-STOP')
seeded('C04', 'START_REPLICATION fired without state test', 'R4.3',
       [('simulator', "        self._run_state = RunState.STARTING\n        if self._replication_state == ReplicationState.INITIALIZED:\n            self.fire_timed(self._simulator_time,\n                ReplicationInterface.START_REPLICATION_EVENT, None)\n            self._replication_state = ReplicationState.STARTED\n",
         "        self._run_state = RunState.STARTING\n        self.fire_timed(self._simulator_time,\n            ReplicationInterface.START_REPLICATION_EVENT, None)\n        self._replication_state = ReplicationState.STARTED\n")], key='START_REPLICATION_EVENT')
seeded('C04', 'TIME_CHANGED carries the old clock', 'R4.3',
       [('simulator', "            self.fire_timed(event.time, Simulator.TIME_CHANGED_EVENT,\n                            event.time)\n            self._simulator_time = event.time\n            event.execute()", "            self.fire_timed(self._simulator_time, Simulator.TIME_CHANGED_EVENT,\n                            event.time)\n            self._simulator_time = event.time\n            event.execute()")], key='TIME_CHANGED')
seeded('C04', 'warm-up scheduled twice', 'R4.3',
       [('simulator', "        self.schedule_event_abs(self.replication.warmup_sim_time,\n            self, \"warmup\", priority=SimEventInterface.MAX_PRIORITY)", "        for _ in range(2):\n            self.schedule_event_abs(self.replication.warmup_sim_time,\n                self, \"warmup\", priority=SimEventInterface.MAX_PRIORITY)")], key='warmup')
seeded('C04', 'clear() moved back to the end of the worker loop', 'R4.4',
       [('simulator', "            self.__wakeup_flag.wait()\n            self.__wakeup_flag.clear()\n            self._running = True\n", "            self.__wakeup_flag.wait()\n            self._running = True\n"),
        ('simulator', "                    self._finalized = True\n            self._running = False\n", "                    self._finalized = True\n            self.__wakeup_flag.clear()\n            self._running = False\n")])
seeded('C04', 'end_replication guard dropped', 'R4.6',
       [('simulator', "        if not self.is_initialized():\n            raise DSOLError(\"cannot end the replication of an uninitialized simulator\")\n", "")], key='end_replication')
seeded('C04', 'worker never finalized after END_REPLICATION', 'R4.7',
       [('simulator', "                        ReplicationInterface.END_REPLICATION_EVENT, None)\n                    self._finalized = True\n", "                        ReplicationInterface.END_REPLICATION_EVENT, None)\n")])
seeded('C04', 'set_error_strategy stores before validating', 'R4.1',
       [('simulator', "        if not error_strategy in ErrorStrategy.LOG_LEVELS:\n            raise ValueError(\"None-existent error strategy for simulator\")\n        self._error_strategy = error_strategy\n", "        self._error_strategy = error_strategy\n        if not error_strategy in ErrorStrategy.LOG_LEVELS:\n            raise ValueError(\"None-existent error strategy for simulator\")\n")], key='set_error_strategy')
benign('C04', 'guards of _start_impl rewritten by De Morgan / inlined predicate',
       [('simulator', "        if not (self._replication_state == ReplicationState.INITIALIZED \\\n                or self.replication_state == ReplicationState.STARTED):\n            raise DSOLError(\"replication state not INITIALIZED or STARTED\")\n        if self._simulator_time >= self._replication.end_sim_time:\n            raise DSOLError(\"cannot start: simulator_time > run length\")\n        self._run_until_time",
         "        if (self._replication_state != ReplicationState.INITIALIZED \\\n                and self._replication_state != ReplicationState.STARTED):\n            raise DSOLError(\"replication state not INITIALIZED or STARTED\")\n        if not self._simulator_time < self._replication.end_sim_time:\n            raise DSOLError(\"cannot start: simulator_time > run length\")\n        self._run_until_time")])
benign('C04', 'stop() guard written on the run state directly',
       [('simulator', "        if self.is_stopping_or_stopped():\n            raise DSOLError(\"cannot stop an already stopped simulator\")", "        if not (self._run_state == RunState.STARTING or self._run_state == RunState.STARTED):\n            raise DSOLError(\"cannot stop an already stopped simulator\")")])
benign('C04', 'worker dereference guarded by is-not-None',
       [('simulator', "        self._replication_state = ReplicationState.ENDING\n        self.__worker.wakeup()  # just to be sure", "        self._replication_state = ReplicationState.ENDING\n        if self.__worker is not None:\n            self.__worker.wakeup()  # just to be sure")])

# =====================================================================================================  C05
seeded('C05', 'LOG_AND_CONTINUE breaks out of the loop', 'R5.1',
       [('simulator', "                if self._error_strategy == ErrorStrategy.WARN_AND_PAUSE:\n                    self._run_state = RunState.STOPPING\n", "                if self._error_strategy == ErrorStrategy.LOG_AND_CONTINUE:\n                    break\n                if self._error_strategy == ErrorStrategy.WARN_AND_PAUSE:\n                    self._run_state = RunState.STOPPING\n")], key='LOG_AND_CONTINUE')
seeded('C05', 'WARN_AND_CONTINUE clears the event list', 'R5.1',
       [('simulator', "                    print(s + str(e))\n                    traceback.print_exc()\n", "                    print(s + str(e))\n                    traceback.print_exc()\n                    if self._error_strategy == ErrorStrategy.WARN_AND_CONTINUE:\n                        self._eventlist.clear()\n")], key='WARN_AND_CONTINUE')
seeded('C05', 'WARN_AND_PAUSE also ends the replication', 'R5.1',
       [('simulator', "                if self._error_strategy == ErrorStrategy.WARN_AND_PAUSE:\n                    self._run_state = RunState.STOPPING\n", "                if self._error_strategy == ErrorStrategy.WARN_AND_PAUSE:\n                    self._run_state = RunState.STOPPING\n                    self._replication_state = ReplicationState.ENDING\n")], key='WARN_AND_PAUSE')
seeded('C05', 'pause threshold off by one (continue strategy pauses)', 'R5.1',
       [('simulator', "                if self._error_strategy == ErrorStrategy.WARN_AND_PAUSE:\n                    self._run_state", "                if self._error_strategy >= ErrorStrategy.WARN_AND_CONTINUE and self._error_strategy <= ErrorStrategy.WARN_AND_PAUSE:\n                    self._run_state")], key='WARN_AND_CONTINUE')
seeded('C05', 'handler catches only DSOLError', 'R5.1',
       [('simulator', "                event.execute()\n            except Exception as e:\n                s = ", "                event.execute()\n            except DSOLError as e:\n                s = ")])
seeded('C05', 'str + exception in step() again', 'R5.2',
       [('simulator', "            print(\"Simulator step got exception: \" + str(e))", "            print(\"Simulator step got exception: \" + e)")])
seeded('C05', 'step(): STOPPED set in the try body, not in finally', 'R5.3',
       [('simulator', "            self._step_impl()\n        except Exception as e:\n            print(\"Simulator step got exception: \" + str(e))\n        finally:\n            self.fire_timed(self._simulator_time,\n                            Simulator.STOP_EVENT, None)\n            self._run_state = RunState.STOPPED",
         "            self._step_impl()\n            self._run_state = RunState.STOPPED\n        except Exception as e:\n            print(\"Simulator step got exception: \" + str(e))\n            raise\n        finally:\n            self.fire_timed(self._simulator_time,\n                            Simulator.STOP_EVENT, None)")])
benign('C05', 'strategy dispatch as separate ifs',
       [('simulator', "                elif self._error_strategy == ErrorStrategy.WARN_AND_END:\n                    self.cleanup()\n                elif self._error_strategy == ErrorStrategy.WARN_AND_EXIT:", "                if self._error_strategy == ErrorStrategy.WARN_AND_END:\n                    self.cleanup()\n                if self._error_strategy == ErrorStrategy.WARN_AND_EXIT:")])
benign('C05', 'step() handler uses an f-string',
       [('simulator', "            print(\"Simulator step got exception: \" + str(e))", "            print(f\"Simulator step got exception: {e}\")")])

# =====================================================================================================  C06
seeded('C06', 'eventlist.clear() after the base initialisation', 'R6.1',
       [('simulator', "        self._eventlist.clear()\n        super().initialize(model, replication)\n", "        super().initialize(model, replication)\n        self._eventlist.clear()\n")], key='clear-order')
seeded('C06', 'clock reset after construct_model()', 'R6.1',
       [('simulator', "        self._simulator_time = replication.start_sim_time\n        model.output_statistics().clear()\n        model.construct_model()\n", "        model.output_statistics().clear()\n        model.construct_model()\n        self._simulator_time = replication.start_sim_time\n")], key='clock-reset')
seeded('C06', 'construct_model() only when no model was set before', 'R6.1',
       [('simulator', "        model.construct_model()\n", "        if self._model is None:\n            model.construct_model()\n")], key='construct_model')
seeded('C06', 'warm-up at NORMAL_PRIORITY', 'R6.1',
       [('simulator', "            self, \"warmup\", priority=SimEventInterface.MAX_PRIORITY)", "            self, \"warmup\", priority=SimEventInterface.NORMAL_PRIORITY)")], key='warmup-priority')
seeded('C06', 'output statistics no longer cleared', 'R6.2',
       [('simulator', "        model.output_statistics().clear()\n", "")])
seeded('C06', 'output statistics cleared after construct_model()', 'R6.2',
       [('simulator', "        model.output_statistics().clear()\n        model.construct_model()\n", "        model.construct_model()\n        model.output_statistics().clear()\n")])
seeded('C06', 'new run-dirty field never reset', 'R6.3',
       [('simulator', "    def _run(self):\n        self._runflag = True\n", "    def _run(self):\n        self._runflag = True\n        self._events_done = getattr(self, '_events_done', 0) + 1\n")], key='_events_done')
benign('C06', 'registry cleared through a model method',
       [('simulator', "        model.output_statistics().clear()\n", "        model.clear_output_statistics()\n"),
        ('model', "    def add_output_statistic(self, key: str, statistic: StatisticsInterface):", "    def clear_output_statistics(self):\n        self._output_statistics.clear()\n\n    def add_output_statistic(self, key: str, statistic: StatisticsInterface):")])

# =====================================================================================================  C07
seeded('C07', 'hash() of the stream name in the seed again', 'R7.1',
       [('streams', "(1_000_037 + zlib.crc32(stream_id.encode('utf-8')))", "(1_000_037 + hash(stream_id))")], key='hash')
seeded('C07', 'id() used as tie-breaker in the heap key', 'R7.1',
       [('eventlist', "        heapq.heappush(self._event_list, (event.time, -event.priority,\n                                          event._id, event))", "        heapq.heappush(self._event_list, (event.time, -event.priority,\n                                          event._id, id(event), event))")], key='id')
seeded('C07', 'listeners notified through a set', 'R8.1',
       [('pubsub', "        for listener in self._listeners.get(event.event_type).copy():\n            listener.notify(event)", "        for listener in set(self._listeners.get(event.event_type)):\n            listener.notify(event)")])
seeded('C07', 'iteration over the set of event types', 'R7.1',
       [('statistics', "        self._event_types: set[EventType] = {StatEvents.WEIGHT_DATA_EVENT}\n", "        self._event_types: set[EventType] = {StatEvents.WEIGHT_DATA_EVENT}\n        for et in self._event_types:\n            simulator.add_listener(et, self)\n")], key='iterate')
seeded('C07', 'global random jitter in the worker wait', 'R7.1',
       [('simulator', "from time import sleep\n", "from time import sleep\nimport random\n"),
        ('simulator', "        while not self._runflag and int(time.time() * 1000) - msec < 1000:\n            sleep(0.001)", "        while not self._runflag and int(time.time() * 1000) - msec < 1000:\n            sleep(0.001 * random.random())")], key='random')
seeded('C07', 'wall clock stored as the simulator time origin', 'R7.1',
       [('simulator', "            sleep(0.001)\n        self._runflag = False\n", "            sleep(0.001)\n        self._runflag = False\n        self._started_at = time.time()\n")], key='time.time')
seeded('C07', 'event id used modulo 2 to break ties', 'R7.3',
       [('simevent', "        if (self._id < other._id):\n            return -1", "        if (self._id % 2 < other._id % 2):\n            return -1")])
seeded('C07', 'loop-carried local in _run', 'R7.5',
       [('simulator', "        self._runflag = True\n        while not self.is_stopping_or_stopped():\n            # check if we are done\n", "        self._runflag = True\n        last_time = self._simulator_time\n        while not self.is_stopping_or_stopped():\n            if last_time > self._simulator_time:\n                return\n            # check if we are done\n")])
benign('C07', 'timeout loop written with a deadline local',
       [('simulator', "        msec: int = int(time.time() * 1000)\n        while not self._runflag and int(time.time() * 1000) - msec < 1000:\n            sleep(0.001)", "        deadline: int = int(time.time() * 1000) + 1000\n        while not self._runflag and int(time.time() * 1000) < deadline:\n            sleep(0.001)")])
benign('C07', 'membership test on the event-type set',
       [('statistics', "        if event.event_type in self._event_types:\n            super().notify(Event(StatEvents.WEIGHT_DATA_EVENT, event.content))", "        if self._event_types.__contains__(event.event_type):\n            super().notify(Event(StatEvents.WEIGHT_DATA_EVENT, event.content))")])

# =====================================================================================================  C08
FIRE_LOOP = "        for listener in self._listeners.get(event.event_type).copy():\n            listener.notify(event)"
seeded('C08', 'copy() dropped in fire_event', 'R8.1', [('pubsub', FIRE_LOOP, "        for listener in self._listeners.get(event.event_type):\n            listener.notify(event)")], key='fire_event')
seeded('C08', 'fire_timed_event stops after the first listener', 'R8.1',
       [('pubsub', "        for listener in self._listeners.get(timed_event.event_type).copy():\n            listener.notify(timed_event)", "        for listener in self._listeners.get(timed_event.event_type).copy():\n            listener.notify(timed_event)\n            break")], key='fire_timed_event')
seeded('C08', 'duplicate test dropped in add_listener', 'R8.2',
       [('pubsub', "        if listener not in self._listeners[event_type]:\n            self._listeners[event_type].append(listener)", "        self._listeners[event_type].append(listener)")])
seeded('C08', 'new listeners inserted at the front', 'R8.2',
       [('pubsub', "            self._listeners[event_type].append(listener)", "            self._listeners[event_type].insert(0, listener)")])
seeded('C08', 'remove_listener without membership test', 'R8.3',
       [('pubsub', "            if listener in self._listeners[event_type]:\n                self._listeners[event_type].remove(listener)\n                if len(list(self._listeners[event_type])) == 0:\n                    del self._listeners[event_type]",
         "            self._listeners[event_type].remove(listener)\n            if len(list(self._listeners[event_type])) == 0:\n                del self._listeners[event_type]")], key='remove')
seeded('C08', 'emptied list keeps its key', 'R8.3',
       [('pubsub', "                if len(list(self._listeners[event_type])) == 0:\n                    del self._listeners[event_type]", "                pass")], key='remove_listener')
seeded('C08', 'remove_all_listeners(type) clears everything', 'R8.3',
       [('pubsub', "            if listener == None:\n                if event_type in self._listeners:\n                    del self._listeners[event_type]", "            if listener == None:\n                self._listeners.clear()")], key='type-given-listener-none')
seeded('C08', 'remove_all_listeners iterates the live key view', 'R8.3',
       [('pubsub', "                for et in list(self._listeners.keys()):", "                for et in self._listeners.keys():")])
seeded('C08', 'fire_timed_event notifies under the wrong key', 'R8.4',
       [('pubsub', "        if timed_event.event_type not in self._listeners:\n            return", "        if timed_event.event_type not in self._listeners or not timed_event.content:\n            return")])
seeded('C08', 'metadata length check dropped', 'R8.5',
       [('pubsub', "                if len(event_type.metadata) != len(content):\n                    raise EventError(\"metadata length but consistent with \"\n                        +\"content length\")\n", "")], key='len')
seeded('C08', 'dict check only under `check`', 'R8.5',
       [('pubsub', "            if not isinstance(content, dict):\n                raise EventError(\"event_type defined metadata but content \"\n                    +\"is not specified as a dict\")\n            if check:\n", "            if check and not isinstance(content, dict):\n                raise EventError(\"event_type defined metadata but content \"\n                    +\"is not specified as a dict\")\n            if check:\n")], key='dict')
seeded('C08', 'TimedEvent stores the timestamp before checking it', 'R8.6',
       [('pubsub', "        if not isinstance(timestamp, (int, float)):\n            raise EventError(\"timestamp is not an int or a float\")\n        self._timestamp = timestamp\n", "        self._timestamp = timestamp\n        if not isinstance(timestamp, (int, float)):\n            raise EventError(\"timestamp is not an int or a float\")\n")])
seeded('C08', 'add_listener registers before validating the listener', 'R8.7',
       [('pubsub', "        if not isinstance(listener, EventListener):\n            raise EventError(\"listener should be an EventListener\")\n        if event_type not in self._listeners:\n            self._listeners[event_type] = []\n", "        if event_type not in self._listeners:\n            self._listeners[event_type] = []\n        if not isinstance(listener, EventListener):\n            raise EventError(\"listener should be an EventListener\")\n")], key='add_listener')
benign('C08', 'snapshot via list() in both fire loops',
       [('pubsub', FIRE_LOOP, "        for listener in list(self._listeners.get(event.event_type)):\n            listener.notify(event)"),
        ('pubsub', "        for listener in self._listeners.get(timed_event.event_type).copy():", "        for listener in list(self._listeners.get(timed_event.event_type)):")])
benign('C08', 'duplicate guard written as `if l in list: pass else`',
       [('pubsub', "        if listener not in self._listeners[event_type]:\n            self._listeners[event_type].append(listener)", "        if listener in self._listeners[event_type]:\n            pass\n        else:\n            self._listeners[event_type].append(listener)")])

# =====================================================================================================  C09 / C10
seeded('C09', 'sample variance guard n > 1 -> n > 0', 'R9.1',
       [('statistics', "        elif self._n > 1:\n            return self._m2 / (self._n - 1)", "        elif self._n > 0:\n            return self._m2 / (self._n - 1)")], key='variance')
seeded('C09', 'skewness zero-variance guard dropped', 'R9.1',
       [('statistics', "            if not var > 0:\n                return math.nan\n", "")], key='skewness')
seeded('C09', 'sample skewness guard n > 2 -> n > 1', 'R9.1',
       [('statistics', "            elif n > 2:\n                return (skew_biased", "            elif n > 1:\n                return (skew_biased")], key='skewness')
seeded('C09', 'sample excess kurtosis guard n > 3 -> n > 2', 'R9.1',
       [('statistics', "        elif n > 3:\n            g2 = self.excess_kurtosis()", "        elif n > 2:\n            g2 = self.excess_kurtosis()")], key='excess_kurtosis')
seeded('C09', 'confidence_interval alpha=0 guard dropped', 'R9.1',
       [('statistics', "        if level >= 1.0:\n            # alpha = 0: 100% confidence; the unbounded interval is clipped \n            # to the observed range, like the intervals below\n            return (self._min, self._max)\n", "")], key='inv_cdf')
seeded('C09', 'mean() without the n > 0 guard', 'R9.5',
       [('statistics', "        if self._n > 0:\n            return self._m1\n        return math.nan", "        return self._m1")], key='mean')
seeded('C09', 'Tally.register counts before validating', 'R9.2',
       [('statistics', "        if not isinstance(value, (int, float)):\n            raise TypeError(\"tally registered value must be a number\")\n        if math.isnan(value):\n            raise ValueError(\"tally registered value cannot be nan\")\n        if self._n == 0:\n            self._min = +math.inf\n            self._max = -math.inf\n        self._n += 1\n        delta",
         "        self._n += 1\n        if not isinstance(value, (int, float)):\n            raise TypeError(\"tally registered value must be a number\")\n        if math.isnan(value):\n            raise ValueError(\"tally registered value cannot be nan\")\n        if self._n == 1:\n            self._min = +math.inf\n            self._max = -math.inf\n        delta")], key='Tally')
seeded('C09', 'm3 forgotten in Tally.initialize', 'R9.3',
       [('statistics', "        self._m2 = 0.0\n        self._m3 = 0.0\n        self._m4 = 0.0\n", "        self._m2 = 0.0\n        self._m4 = 0.0\n")], key='_m3')
seeded('C09', 'Counter.register counts the observation twice', 'R9.4',
       [('statistics', "        self._count += value\n        self._n += 1", "        self._count += value\n        self._n += 2")])
benign('C09', 'variance guards rewritten (De Morgan / separate ifs)',
       [('statistics', "        if biased:\n            if self._n > 0:\n                return self._m2 / (self._n)\n        elif self._n > 1:\n            return self._m2 / (self._n - 1)\n        return math.nan",
         "        if biased and not self._n <= 0:\n            return self._m2 / (self._n)\n        if not biased and self._n >= 2:\n            return self._m2 / (self._n - 1)\n        return math.nan")])
benign('C09', 'zero variance handled with try/except in skewness',
       [('statistics', "            var = self.variance()\n            if not var > 0:\n                return math.nan\n            skew_biased = (self._m3 / n) / var ** 1.5 \n", "            var = self.variance()\n            try:\n                skew_biased = (self._m3 / n) / var ** 1.5\n            except ZeroDivisionError:\n                return math.nan\n")])

seeded('C10', 'weighted variance zero-weight guard dropped', 'R10.1',
       [('statistics', "        if self._n > 0 and self._sum_of_weights > 0:", "        if self._n > 0:")], key='weighted_variance')
seeded('C10', 'sample weighted variance guard n_nonzero > 1 -> > 0', 'R10.1',
       [('statistics', "            elif self._n_nonzero > 1:", "            elif self._n_nonzero > 0:")], key='weighted_variance')
seeded('C10', 'zero-weight early return dropped', 'R10.1',
       [('statistics', "        if weight == 0.0:\n            return\n", "")], key='register')
seeded('C10', 'negative weight accepted', 'R10.1',
       [('statistics', "        if weight < 0:\n            raise ValueError(\"tally weight cannot be < 0\")\n", "")])
seeded('C10', 'timestamp order guard after the write', 'R10.2',
       [('statistics', "        if timestamp < self._last_timestamp:\n            raise ValueError(\"tally timestamp before last timestamp\")\n", "        self._last_value = value\n        if timestamp < self._last_timestamp:\n            raise ValueError(\"tally timestamp before last timestamp\")\n")], key='TimestampWeightedTally')
seeded('C10', '_n_nonzero forgotten in initialize', 'R10.3',
       [('statistics', "        self._n = 0\n        self._n_nonzero = 0\n        self._sum_of_weights = 0.0\n", "        self._n = 0\n        self._sum_of_weights = 0.0\n")], key='_n_nonzero')
seeded('C10', 'accumulation ignores the active flag', 'R10.4',
       [('statistics', "                or timestamp > self._last_timestamp) and self._active:", "                or timestamp > self._last_timestamp):")], key='accumulate')
seeded('C10', 'interval weighted with the new value', 'R10.4',
       [('statistics', "                super().register(deltatime, self._last_value)", "                super().register(deltatime, value)")], key='accumulate')
seeded('C10', 'end_observations does not deactivate', 'R10.4',
       [('statistics', "        self.register(timestamp, self._last_value)\n        self._active = False", "        self.register(timestamp, self._last_value)")], key='end_observations')
seeded('C10', 'weighted mean without n guard', 'R10.5',
       [('statistics', "        if self._n > 0:\n            return self._weighted_mean\n        return math.nan", "        return self._weighted_mean")], key='weighted_mean')
benign('C10', 'weighted variance guard split into nested ifs',
       [('statistics', "        if self._n > 0 and self._sum_of_weights > 0:\n            w_pop_var", "        if self._n > 0:\n          if self._sum_of_weights > 0:\n            w_pop_var"),
        ('statistics', "            if biased:\n                return w_pop_var\n            elif self._n_nonzero > 1:\n                return w_pop_var * self._n_nonzero / (self._n_nonzero - 1)", "            if biased:\n                return w_pop_var\n            if self._n_nonzero >= 2:\n                return w_pop_var * self._n_nonzero / (self._n_nonzero - 1)")])

# =====================================================================================================  C11
seeded('C11', 'SimWeightedTally does not subscribe to WARMUP', 'R11.1',
       [('statistics', "        EventBasedWeightedTally.__init__(self, name)\n        simulator.add_listener(ReplicationInterface.WARMUP_EVENT, self)\n", "        EventBasedWeightedTally.__init__(self, name)\n")], key='SimWeightedTally')
seeded('C11', 'SimPersistent does not subscribe to END_REPLICATION', 'R11.1',
       [('statistics', "        simulator.add_listener(ReplicationInterface.END_REPLICATION_EVENT, self)\n", "")], key='END_REPLICATION')
seeded('C11', 'SimTally assigns _simulator after the base constructor', 'R11.1',
       [('statistics', "        self._simulator = simulator\n        EventBasedTally.__init__(self, name)\n", "        EventBasedTally.__init__(self, name)\n        self._simulator = simulator\n")], key='SimTally')
seeded('C11', 'SimWeightedTally forwards a constant instead of the content', 'R11.2',
       [('statistics', "            super().notify(Event(StatEvents.WEIGHT_DATA_EVENT, event.content))", "            super().notify(Event(StatEvents.WEIGHT_DATA_EVENT, (1.0, event.content[1])))")], key='SimWeightedTally')
seeded('C11', 'SimPersistent closes at time 0 instead of the clock', 'R11.2',
       [('statistics', "            self.end_observations(self.simulator.simulator_time)", "            self.end_observations(0.0)")], key='SimPersistent')
seeded('C11', 'SimPersistent ignores warm-up', 'R11.2',
       [('statistics', "                    StatEvents.TIMESTAMP_DATA_EVENT, event.content))\n        elif event.event_type == ReplicationInterface.WARMUP_EVENT:\n            self.initialize()\n", "                    StatEvents.TIMESTAMP_DATA_EVENT, event.content))\n        elif event.event_type == ReplicationInterface.WARMUP_EVENT:\n            pass\n")], key='SimPersistent')
seeded('C11', 'get_output_statistic returns by name lookup of the wrong dict', 'R11.3',
       [('model', "        return self._output_statistics[key]", "        return self._input_parameters.get(key)")])
seeded('C11', 'warm-up at MIN_PRIORITY', 'R11.4',
       [('simulator', "            self, \"warmup\", priority=SimEventInterface.MAX_PRIORITY)", "            self, \"warmup\", priority=SimEventInterface.MIN_PRIORITY)")])
seeded('C11', 'SimTally publishes the population variance as sample variance', 'R11.5',
       [('statistics', "        self.fire_timed(t, StatEvents.SAMPLE_VARIANCE_EVENT,\n                        self.variance(False))", "        self.fire_timed(t, StatEvents.SAMPLE_VARIANCE_EVENT,\n                        self.variance())")], key='SAMPLE_VARIANCE')
seeded('C11', 'EventBasedTally publishes min under MAX', 'R11.5',
       [('statistics', "        self.fire(StatEvents.MAX_EVENT, self.max())\n        self.fire(StatEvents.SUM_EVENT, self.sum())", "        self.fire(StatEvents.MAX_EVENT, self.min())\n        self.fire(StatEvents.SUM_EVENT, self.sum())")], key='MAX_EVENT')
seeded('C11', 'SimCounter timestamps with 0', 'R11.5',
       [('statistics', "        self.fire_timed(self.simulator.simulator_time,\n                        StatEvents.COUNT_EVENT, self.count())", "        self.fire_timed(0.0,\n                        StatEvents.COUNT_EVENT, self.count())")], key='COUNT_EVENT')
seeded('C11', 'end_replication leaves the clock where it was', 'R11.6',
       [('simulator', "            print(\"warning: end_replication called with simtime < runlength\")\n            self._simulator_time = self._replication.end_sim_time", "            print(\"warning: end_replication called with simtime < runlength\")")])
benign('C11', 'subscription through self._simulator',
       [('statistics', "        EventBasedWeightedTally.__init__(self, name)\n        simulator.add_listener(ReplicationInterface.WARMUP_EVENT, self)\n", "        EventBasedWeightedTally.__init__(self, name)\n        self._simulator.add_listener(ReplicationInterface.WARMUP_EVENT, self)\n")])

# =====================================================================================================  C12
seeded('C12', 'class-level shared Random()', 'R12.1',
       [('streams', "        self._original_seed: int = seed\n        self._random: Random = Random()\n", "        self._original_seed: int = seed\n        self._random: Random = MersenneTwister._shared\n"),
        ('streams', "        return self._original_seed\n", "        return self._original_seed\n\n    _shared = Random()\n")],
       accept_analysis_error=True)
seeded('C12', 'generator handed out', 'R12.1',
       [('streams', "    def reset(self):\n        \"\"\"\n        Reset the stream to use the seed value.", "    def generator(self):\n        return self._random\n\n    def reset(self):\n        \"\"\"\n        Reset the stream to use the seed value.")], key='escape')
seeded('C12', 'next_bool uses the global generator', 'R12.1b',
       [('streams', "from random import Random\n", "from random import Random\nimport random\n"),
        ('streams', "        return self._random.random() < 0.5", "        return random.random() < 0.5")])
seeded('C12', 'next_int consumes two draws', 'R12.2',
       [('streams', "        return lo + math.floor((hi - lo + 1) * self._random.random())", "        self._random.random()\n        return lo + math.floor((hi - lo + 1) * self._random.random())")], key='next_int')
seeded('C12', 'next_bool consumes no draw for a cached value', 'R12.2',
       [('streams', "        return self._random.random() < 0.5", "        if getattr(self, '_flip', False):\n            self._flip = False\n            return True\n        self._flip = True\n        return self._random.random() < 0.5")], key='next_bool')
seeded('C12', 'reset re-seeds with the original seed', 'R12.3',
       [('streams', "        self.set_seed(self._seed)", "        self.set_seed(self._original_seed)")], key='reset')
seeded('C12', 'set_seed seeds with seed+1', 'R12.3',
       [('streams', "        self._random.seed(seed)", "        self._random.seed(seed + 1)")], key='set_seed')
seeded('C12', 'restore_state re-seeds instead of restoring', 'R12.4',
       [('streams', "        self._random.setstate(state)", "        self._random.seed(self._seed)")], key='restore_state')
benign('C12', 'set_seed seeds from the stored field',
       [('streams', "        self._seed: int = seed\n        self._random.seed(seed)", "        self._seed: int = seed\n        self._random.seed(self._seed)")])

# =====================================================================================================  C13
seeded('C13', 'hash() back in the fallback updater', 'R13.1',
       [('streams', "(1_000_037 + zlib.crc32(stream_id.encode('utf-8')))", "(1_000_037 + hash(stream_id))")])
seeded('C13', 'seed mixed with the wall clock', 'R13.1',
       [('streams', "        stream.set_seed(stream.original_seed() + replication_nr * ", "        stream.set_seed(int(time.time()) + stream.original_seed() + replication_nr * ")])
seeded('C13', 'unguarded seed-table lookup again', 'R13.2',
       [('streams', "        if self._stream_seeds.get(stream_id) is None:", "        if self._stream_seeds[stream_id] is None:")])
seeded('C13', 'updater counts its calls into the seed', 'R13.3',
       [('streams', "        if replication_nr < 0:\n            raise ValueError(\"replication_nr < 0\")\n        stream.set_seed(stream.original_seed()", "        if replication_nr < 0:\n            raise ValueError(\"replication_nr < 0\")\n        self._calls = getattr(self, '_calls', 0) + 1\n        stream.set_seed(self._calls + stream.original_seed()")], key='state')
seeded('C13', 'driver passes the same stream for every key', 'R13.3',
       [('streams', "            self.update_seed(key, streams[key], replication_nr)", "            self.update_seed(key, streams['default'], replication_nr)")], key='update_seeds')
seeded('C13', 'negative replication number accepted', 'R13.4',
       [('streams', "        if replication_nr < 0:\n            raise ValueError(\"replication_nr < 0\")\n        if self._stream_seeds.get", "        if self._stream_seeds.get")], key='StreamSeedUpdater')
seeded('C13', 'replication number beyond the seed list: `>` instead of `>=`', 'R13.4',
       [('streams', "            if replication_nr >= len(self._stream_seeds[stream_id]):", "            if replication_nr > len(self._stream_seeds[stream_id]):")], key='StreamSeedUpdater')
benign('C13', 'lookup guarded by `in`',
       [('streams', "        if self._stream_seeds.get(stream_id) is None:", "        if stream_id not in self._stream_seeds:")])

# =====================================================================================================  C14
seeded('C14', 'Exponential draws log(u) with u in [0,1) again', 'R14.1',
       [('distributions', "        return -self._mean * math.log(self._next_positive_float())", "        return -self._mean * math.log(self._stream.next_float())")], key='DistExponential')
seeded('C14', 'positive-uniform helper no longer redraws', 'R14.1',
       [('distributions', "        while u == 0.0:\n            u = self._stream.next_float()\n        return u", "        return u")])
seeded('C14', 'Normal polar loop accepts s == 0', 'R14.1',
       [('distributions', "        while s >= 1.0 or s == 0.0:", "        while s >= 1.0:")], key='_next_gaussian')
seeded('C14', 'Gamma accepts shape = 0', 'R14.1',
       [('distributions', "        if shape <= 0:\n            raise ValueError(f\"parameter shape {shape} should be > 0\")", "        if shape < 0:\n            raise ValueError(f\"parameter shape {shape} should be > 0\")")], key='DistGamma')
seeded('C14', 'Uniform accepts hi == lo (then pdf divides by zero: C15) and Triangular lo == hi', 'R14.1',
       [('distributions', "        if lo == hi:\n            raise ValueError(f\"parameter lo {lo} == hi {hi}\")\n", "")], key='DistTriangular')
seeded('C14', 'Beta does not rebuild its second gamma on re-pointing', 'R14.2',
       [('distributions', "        self._dist1 = DistGamma(self._stream, self._alpha1, 1.0)\n        self._dist2 = DistGamma(self._stream, self._alpha2, 1.0)", "        self._dist1 = DistGamma(self._stream, self._alpha1, 1.0)\n        if self._dist2 is None:\n            self._dist2 = DistGamma(self._stream, self._alpha2, 1.0)")], key='_dist2')
seeded('C14', 'Pearson5 builds its gamma in the constructor only', 'R14.2',
       [('distributions', "        super()._set_stream(stream)\n        self._dist = DistGamma(stream, self._alpha, 1.0 / self._beta)", "        super()._set_stream(stream)\n        if getattr(self, '_dist', None) is None:\n            self._dist = DistGamma(stream, self._alpha, 1.0 / self._beta)")], key='_dist')
seeded('C14', 'Erlang assigns k after the base constructor', 'R14.2',
       [('distributions', "        self._scale = float(scale)\n        self._k = k\n        self._lambda = 1.0 / scale\n        super().__init__(stream)  # after setting k and scale", "        self._scale = float(scale)\n        self._lambda = 1.0 / scale\n        super().__init__(stream)  # after setting k and scale\n        self._k = k")], key='_k')
seeded('C14', 'Normal keeps the saved gaussian across re-pointing', 'R14.3',
       [('distributions', "        super()._set_stream(stream)\n        self._have_saved_gaussian = False  # helper variable", "        super()._set_stream(stream)")], key='_have_saved_gaussian')
seeded('C14', 'class-level cache shared by all Poisson instances', 'R14.4',
       [('distributions', "class DistPoisson(DistDiscrete):\n", "class DistPoisson(DistDiscrete):\n    _cache = {}\n"),
        ('distributions', "        self._expl = math.exp(-self._rate)\n", "        self._cache['expl'] = math.exp(-self._rate)\n        self._expl = self._cache['expl']\n")], key='_cache')
seeded('C14', 'LogNormal returns the underlying normal draw', 'R14.5',
       [('distributions', "        return math.exp(super().draw())", "        return super().draw()")], key='DistLogNormal')
seeded('C14', 'NormalTrunc returns the unclamped value on the high side', 'R14.5',
       [('distributions', "            if abs(d - self._hi) < 1E-6 * abs(self._hi):\n                return self._hi", "            if abs(d - self._hi) < 1E-6 * abs(self._hi):\n                return d")], key='DistNormalTrunc')
seeded('C14', 'ForceDist draws an Energy', 'R14.6',
       [('units', "        return Force(self._dist.draw(), self._unit)", "        return Energy(self._dist.draw(), self._unit)")], key='ForceDist')
benign('C14', 'helper written as while True / break',
       [('distributions', "        u: float = self._stream.next_float()\n        while u == 0.0:\n            u = self._stream.next_float()\n        return u", "        while True:\n            u: float = self._stream.next_float()\n            if u != 0.0:\n                break\n        return u")])
benign('C14', 'Exponential via 1 - u in (0, 1]',
       [('distributions', "        return -self._mean * math.log(self._next_positive_float())", "        return -self._mean * math.log(1.0 - self._stream.next_float())")])

# =====================================================================================================  C15
seeded('C15', 'triangular density divides by (mode - lo) = 0 again', 'R15.1',
       [('distributions', "        if x >= self._lo and x <= self._mode and self._mode > self._lo:", "        if x >= self._lo and x <= self._mode:")], key='DistTriangular')
seeded('C15', 'Exponential density negative', 'R15.1',
       [('distributions', "            return (1.0 / self._mean) * math.exp(-x / self._mean) ", "            return (-1.0 / self._mean) * math.exp(-x / self._mean) ")], key='DistExponential')
seeded('C15', 'Gamma density evaluated at x = 0 (0 ** negative)', 'R15.1',
       [('distributions', "        if x > 0:\n            return ((self._scale ** -self._shape) * (x ** (self._shape - 1))", "        if x >= 0:\n            return ((self._scale ** -self._shape) * (x ** (self._shape - 1))")], key='DistGamma')
seeded('C15', 'LogNormal density takes log of x <= 0', 'R15.1',
       [('distributions', "        if x > 0.0:\n            xminmu = math.log(x) - self._mu", "        if x >= 0.0:\n            xminmu = math.log(x) - self._mu")], key='DistLogNormal')
seeded('C15', 'Uniform density positive above hi', 'R15.2',
       [('distributions', "        if self._lo <= x <= self._hi:\n            return 1.0 / (self._hi - self._lo) ", "        if self._lo <= x:\n            return 1.0 / (self._hi - self._lo) ")], key='DistUniform')
seeded('C15', 'truncated normal cdf returns 0 above hi', 'R15.2',
       [('distributions', "        if x > self._hi:\n            return 1.0\n", "        if x > self._hi:\n            return 0.0\n")], key='DistNormalTrunc')
seeded('C15', 'Binomial probability for observation > n', 'R15.2',
       [('distributions', "        if isinstance(observation, int) and 0 <= observation <= self._n:", "        if isinstance(observation, int) and 0 <= observation:")], key='DistBinomial')
seeded('C15', 'erf_inv third branch reaches ax = 1', 'R15.3',
       [('utils', "    elif 0.9375 <= ax <= (1.0 - 1.0e-9):", "    elif 0.9375 <= ax <= 1.0:")], key='erf_inv')
seeded('C15', 'truncated-normal inverse accepts y > 1', 'R15.3',
       [('distributions', "        if y < 0 or y > 1:\n            raise ValueError(f\"probability {y} not inn interval [0, 1]\")", "        if y < 0:\n            raise ValueError(f\"probability {y} not inn interval [0, 1]\")")])
benign('C15', 'triangular density with the guard on the denominator',
       [('distributions', "        if x >= self._lo and x <= self._mode and self._mode > self._lo:", "        if self._lo <= x <= self._mode and self._mode - self._lo > 0:")])

# =====================================================================================================  C16
seeded('C16', 'Length * Length declared to be a Volume', 'R16.1',
       [('units', "Length._mul = {Length: Area, Area: Volume,", "Length._mul = {Length: Volume, Area: Volume,")], key='Length._mul[Length]')
seeded('C16', 'Speed / Duration declared to be a Length', 'R16.1',
       [('units', "Speed._div = {Length: Frequency, Frequency: Length, Duration: Acceleration,", "Speed._div = {Length: Frequency, Frequency: Length, Duration: Length,")], key='Speed._div[Duration]')
seeded('C16', 'Force signature typo (s^-1)', 'R16.1',
       [('units', "    _sidict = {'kg': 1, 'm': 1, 's':-2}\n    _mul = {}\n    _div = {}\n\n\nclass Frequency", "    _sidict = {'kg': 1, 'm': 1, 's':-1}\n    _mul = {}\n    _div = {}\n\n\nclass Frequency")])
seeded('C16', '__mul__ consults the _div table', 'R16.2',
       [('units', "        if type(other) in type(self)._mul:\n            newclass = type(self)._mul[type(other)]", "        if type(other) in type(self)._div:\n            newclass = type(self)._div[type(other)]")], key='__mul__')
seeded('C16', 'SI division adds the signatures', 'R16.2',
       [('units', "            ret._sisig = list(map(lambda x, y: x - y, self.sisig(), other.sisig()))", "            ret._sisig = list(map(lambda x, y: x + y, self.sisig(), other.sisig()))")], key='__truediv__')
seeded('C16', 'named quotient computed with *', 'R16.2',
       [('units', "            return newclass(float(self) / float(other),\n                            newclass._baseunit)", "            return newclass(float(self) * float(other),\n                            newclass._baseunit)")], key='__truediv__')
seeded('C16', 'signature key unknown to SI.SIUNITS', 'R16.3',
       [('units', "    _sidict = {'rad': 1}\n", "    _sidict = {'radian': 1}\n")], key='Angle')
seeded('C16', 'as_quantity ignores the signature', 'R16.4',
       [('units', "        if quantity.sisig() != self.sisig():\n            raise ValueError(f\"SI unit of {quantity} is not {self._unit}\")\n", "")])
seeded('C16', 'SI.__sub__ checks only the type again', 'R16.5',
       [('units', "        if type(self) != type(other) or self._sisig != other._sisig:\n            raise ValueError(\"subtracting incompatible quantities\")", "        if type(self) != type(other):\n            raise ValueError(\"subtracting incompatible quantities\")")], key='SI.__sub__')
seeded('C16', 'Quantity.__le__ accepts any operand', 'R16.5',
       [('units', "        if not type(self) == type(other):\n            raise TypeError(f\"comparing incompatible quantities \" \n                    +f\"{type(self).__name__} and {type(other).__name__}\")\n        return float(self) <= float(other)\n         \n    def __gt__(self, other) -> bool:\n        \"\"\"\n        Return whether this quantity is greater than the other quantity.",
         "        return float(self) <= float(other)\n         \n    def __gt__(self, other) -> bool:\n        \"\"\"\n        Return whether this quantity is greater than the other quantity.")], key='Quantity.__le__')
seeded('C16', 'Quantity.__sub__ adds', 'R16.6',
       [('units', "        if (type(self) != type(other)):\n            raise ValueError(\"subtracting incompatible quantities\")\n        return self._val(float(self) - float(other))", "        if (type(self) != type(other)):\n            raise ValueError(\"subtracting incompatible quantities\")\n        return self._val(float(self) + float(other))")], key='Quantity.__sub__')
benign('C16', 'SI signature combined with a comprehension over zip',
       [('units', "            ret._sisig = list(map(lambda x, y: x + y, self.sisig(), other.sisig()))", "            ret._sisig = [a + b for a, b in zip(self.sisig(), other.sisig())]")])
benign('C16', 'SI.__add__ guard rewritten by De Morgan',
       [('units', "        if type(self) != type(other) or self._sisig != other._sisig:\n            raise ValueError(\"adding incompatible quantities\")", "        if not (type(self) == type(other) and self._sisig == other._sisig):\n            raise ValueError(\"adding incompatible quantities\")")])

# =====================================================================================================  C17
seeded('C17', 'base unit factor not 1', 'R17.1', [('units', "    _units = {'m/s2': 1.0, 'm/sec^2': 1.0,", "    _units = {'m/s2': 1.5, 'm/sec^2': 1.0,")], key='Acceleration')
seeded('C17', 'display table holds a float', 'R17.2', [('units', "    _displayunits = {'deg': '°', 'dg': '°', 'arcmin': '\\'', 'arcsec': '\"'}", "    _displayunits = {'deg': '°', 'dg': 0.0174532925199433, 'arcmin': '\\'', 'arcsec': '\"'}")], key='Angle')
seeded('C17', 'alias with a different factor', 'R17.3', [('units', "'km/hr^2': 7.71604938271605E-5,\n", "'km/hr^2': 7.71604938271605E-4,\n")], key='Acceleration')
seeded('C17', 'description missing for a unit', 'R17.4', [('units', "                     'g': 'standard gravity', 'Gal': 'gal'}", "                     'g': 'standard gravity'}")], key='Acceleration')
seeded('C17', 'negative factor', 'R17.5', [('units', "              'Gal': 0.01}", "              'Gal': -0.01}")], key='Gal')
seeded('C17', 'duplicate key in a unit table', 'R17.6', [('units', "    _units = {'rad': 1.0, '%': 0.00999966668666524,", "    _units = {'rad': 1.0, 'rad': 2.0, '%': 0.00999966668666524,")], key='rad')
seeded('C17', 'compound unit km/h with a typo', 'R17.7', [('units', "'km/h': 0.2777777777777778,", "'km/h': 0.2877777777777778,")], key='km/h')
seeded('C17', 'per-Angstrom reciprocal again', 'R17.7', [('units', "': 1.0E10, '/A': 1.0E10}\n", "': 1.0E-10, '/A': 1.0E10}\n")], key='LinearDensity')
seeded('C17', 'comma deleted from __all__', 'R17.8', [('units', "    \"Length\",\n    \"LinearDensity\",", "    \"Length\"\n    \"LinearDensity\",")])
seeded('C17', '__new__ divides by the factor', 'R17.9', [('units', "        basevalue = value * unitmultiplier", "        basevalue = value / unitmultiplier")], key='__new__')
seeded('C17', 'as_unit re-converts through the unit', 'R17.9', [('units', "        ret = type(self)(self.si)\n        ret._unit = newunit", "        ret = type(self)(self.displayvalue * self._units[self._unit] / self._units[newunit], newunit)\n        ret._unit = newunit")], key='as_unit')
seeded('C17', 'displayvalue multiplies', 'R17.9', [('units', "        return float(self) / self._units[self._unit]", "        return float(self) * self._units[self._unit]")], key='displayvalue')
benign('C17', 'table literal reformatted', [('units', "    _sidict = {'m': 1, 's':-2}\n    _mul = {}\n    _div = {}\n\n\nclass Angle", "    _sidict = {\n        'm': 1,\n        's': -2,\n    }\n    _mul = {}\n    _div = {}\n\n\nclass Angle")])

# =====================================================================================================  C18
seeded('C18', 'read-only check dropped from Bool.set_value', 'R18.1',
       [('parameters', "        if self.read_only:\n            raise ValueError(f\"parameter {self.key} is read only\")\n        if not isinstance(value, bool):", "        if not isinstance(value, bool):")], key='InputParameterBool')
seeded('C18', 'type check dropped from Int.set_value', 'R18.1',
       [('parameters', "        if not isinstance(value, int):\n            raise TypeError(f\"parameter value {value} not an int\")\n", "")], key='InputParameterInt')
seeded('C18', 'bounds check dropped from Float.set_value', 'R18.2',
       [('parameters', "        if not isinstance(value, (float, int)):\n            raise TypeError(f\"parameter value {value} not a number\")\n        if not self._min <= value <= self._max:\n            raise ValueError(f\"parameter value {value} not between \" + \\\n                             f\"{self._min} and {self._max}\")\n", "        if not isinstance(value, (float, int)):\n            raise TypeError(f\"parameter value {value} not a number\")\n")], key='InputParameterFloat')
seeded('C18', 'upper bound dropped from Int.set_value', 'R18.2',
       [('parameters', "            raise TypeError(f\"parameter value {value} not an int\")\n        if not self._min <= value <= self._max:", "            raise TypeError(f\"parameter value {value} not an int\")\n        if not self._min <= value:")], key='InputParameterInt')
seeded('C18', 'option check dropped from SelectionList.set_value', 'R18.2',
       [('parameters', "        if not value in self._options:\n            raise ValueError(f\"value {value} is not a valid option \" \\\n                             +f\"from {self._options}\")\n", "")], key='InputParameterSelectionList')
seeded('C18', 'Quantity.set_value accepts any Quantity type', 'R18.2',
       [('parameters', "        if not isinstance(value, self._type):", "        if not isinstance(value, (Quantity, float)):")], key='InputParameterQuantity')
seeded('C18', 'reset_to_default overwrites the default', 'R18.3',
       [('parameters', "    @property    \n    def display_priority(self) -> float:", "    def make_default(self):\n        self._default_value = self._value\n\n    @property    \n    def display_priority(self) -> float:")], key='_default_value')
seeded('C18', 'set_parameter assigns the value property again', 'R18.4',
       [('model', "        self._input_parameters.get(key).set_value(value)", "        self._input_parameters.get(key).value = value")])
seeded('C18', 'Str parameter registers before validating again', 'R18.5',
       [('parameters', "        if not isinstance(default_value, str):\n            raise TypeError(f\"default value {default_value} is not a str\")\n        super().__init__(key, name, default_value, display_priority,\n                         parent=parent, description=description,\n                         read_only=read_only)\n\n    @property    \n    def value(self) -> str:",
         "        super().__init__(key, name, default_value, display_priority,\n                         parent=parent, description=description,\n                         read_only=read_only)\n        if not isinstance(default_value, str):\n            raise TypeError(f\"default value {default_value} is not a str\")\n\n    @property    \n    def value(self) -> str:")], key='InputParameterStr')
seeded('C18', 'map.add inserts before the duplicate test', 'R18.6',
       [('parameters', "        if input_parameter.key in self._value.keys():\n            raise ValueError(f\"duplicate key {input_parameter.key} in map {self}\")\n        input_parameter._parent = self\n        self._value[input_parameter.key] = input_parameter\n", "        input_parameter._parent = self\n        self._value[input_parameter.key] = input_parameter\n")], key='duplicate')
seeded('C18', 'children sorted descending', 'R18.6',
       [('parameters', "                       key=lambda item: item[1])}", "                       key=lambda item: item[1], reverse=True)}")], key='sort')
seeded('C18', '__ge__ implemented with >', 'R18.7',
       [('parameters', "        return self.display_priority >= other.display_priority ", "        return self.display_priority > other.display_priority ")], key='__ge__')
seeded('C18', 'Int.set_value stores before the bounds check', 'R18.8',
       [('parameters', "        if not isinstance(value, int):\n            raise TypeError(f\"parameter value {value} not an int\")\n        if not self._min <= value <= self._max:", "        if not isinstance(value, int):\n            raise TypeError(f\"parameter value {value} not an int\")\n        self._value = value\n        if not self._min <= value <= self._max:")], key='InputParameterInt')
benign('C18', 'Float type check as two isinstance calls',
       [('parameters', "        if not isinstance(value, (float, int)):\n            raise TypeError(f\"parameter value {value} not a number\")", "        if not (isinstance(value, float) or isinstance(value, int)):\n            raise TypeError(f\"parameter value {value} not a number\")")])
benign('C18', 'read-only guard on the field',
       [('parameters', "        if self.read_only:\n            raise ValueError(f\"parameter {self.key} is read only\")\n        if not isinstance(value, bool):", "        if self._read_only:\n            raise ValueError(f\"parameter {self.key} is read only\")\n        if not isinstance(value, bool):")])

# ----- added after the first round of independently seeded changes
benign('C18', 'Int bounds as two strict comparisons (no NaN for ints)',
       [('parameters', "            raise TypeError(f\"parameter value {value} not an int\")\n        if not self._min <= value <= self._max:", "            raise TypeError(f\"parameter value {value} not an int\")\n        if value < self._min or value > self._max:")])
seeded('C18', 'Float bounds as two strict comparisons (NaN passes)', 'R18.2',
       [('parameters', "            raise TypeError(f\"parameter value {value} not a number\")\n        if not self._min <= value <= self._max:", "            raise TypeError(f\"parameter value {value} not a number\")\n        if value < self._min or value > self._max:")], key='InputParameterFloat')
seeded('C14', 'stream setter skips equal streams', 'R14.2',
       [('distributions', "        \"\"\"Set a new random stream for this distribution.\"\"\"\n        self._set_stream(stream)\n", "        \"\"\"Set a new random stream for this distribution.\"\"\"\n        if stream != self._stream:\n            self._set_stream(stream)\n")], key='setter')
seeded('C13', 're-seeding skipped when the seed is unchanged', 'R13.5',
       [('streams', "        stream.set_seed(stream.original_seed() + replication_nr * ", "        if stream.seed() != stream.original_seed():\n          stream.set_seed(stream.original_seed() + replication_nr * ")])
seeded('C06', 'cleanup() after construct_model()', 'R6.1',
       [('simulator', "        if self.__worker is not None:\n            self.cleanup()\n        self.__worker = SimulatorWorkerThread(self.name, self)\n        self._replication = replication\n        self._model = model\n        self._simulator_time = replication.start_sim_time\n        model.output_statistics().clear()\n        model.construct_model()\n",
         "        self._replication = replication\n        self._model = model\n        self._simulator_time = replication.start_sim_time\n        model.output_statistics().clear()\n        model.construct_model()\n        if self.__worker is not None:\n            self.cleanup()\n        self.__worker = SimulatorWorkerThread(self.name, self)\n")], key='cleanup-after-construct_model')
seeded('C05', 'pause handler dereferences the next event', 'R5.1',
       [('simulator', "                if self._error_strategy == ErrorStrategy.WARN_AND_PAUSE:\n                    self._run_state = RunState.STOPPING\n", "                if self._error_strategy == ErrorStrategy.WARN_AND_PAUSE:\n                    print(self.eventlist().peek_first().time)\n                    self._run_state = RunState.STOPPING\n")], key='WARN_AND_PAUSE')
seeded('C16', 'chained assignment aliases _mul and _div', 'R16.1',
       [('units', "Temperature._mul = {}\nTemperature._div = {}\n", "Temperature._mul = Temperature._div = {}\n")], key='Temperature')
seeded('C17', '_val round-trips through the unit factor', 'R17.9',
       [('units', "        q = type(self)(si)\n        q._unit = self._unit\n        return q", "        return type(self)(si / self._units[self._unit], self._unit)")], key='_val')
seeded('C02', 'cancel sifts only one way', 'R1.1',
       [('eventlist', EL_REMOVE, "            pos = self._event_list.index((event.time, -event.priority,\n                                     event._id, event))\n            last = self._event_list.pop()\n            if pos < len(self._event_list):\n                self._event_list[pos] = last\n                heapq._siftup(self._event_list, pos)\n")])
seeded('C07', 'event id counter restarted per replication', 'R1.4',
       [('simevent', "    def __cmp__(self, other: SimEventInterface) -> int:", "    @classmethod\n    def reset_event_counter(cls):\n        cls.__event_counter = 0\n\n    def __cmp__(self, other: SimEventInterface) -> int:")])
seeded('C04', 'warm-up-before-start guard dropped from initialize', 'R4.1',
       [('simulator', "        if not replication.warmup_sim_time >= replication.start_sim_time:\n            raise DSOLError(f\"replication {replication} has its warmup time before its start time\")\n", "")], key='schedule_event_abs')
benign('C04', 'warm-up guard written as `<`-free comparison on the other side',
       [('simulator', "        if not replication.warmup_sim_time >= replication.start_sim_time:", "        if not (replication.warmup_sim_time >= replication.start_sim_time):")])

# ----- added after the second round of independently seeded changes (benign twins of the new rules)
benign('C12', 'next_int with int() instead of math.floor',
       [('streams', "        return lo + math.floor((hi - lo + 1) * self._random.random())", "        return lo + int((hi - lo + 1) * self._random.random())")])
seeded('C12', 'floor taken over the float sum lo + width*u', 'R12.5',
       [('streams', "        return lo + math.floor((hi - lo + 1) * self._random.random())", "        return math.floor(lo + (hi - lo + 1) * self._random.random())")])
benign('C09', 'mean update written as assignment (still one convex step)',
       [('statistics', "        self._m1 += delta / n\n", "        self._m1 = self._m1 + delta / n\n")])
seeded('C09', 'mean recomputed from the running sum', 'R9.6',
       [('statistics', "        self._m1 += delta / n\n", "        self._m1 = (self._sum + value) / n\n")])
seeded('C09', 'NaN test without float conversion', 'R9.2b',
       [('statistics', "        if math.isnan(value):\n            raise ValueError(\"tally registered value cannot be nan\")\n        if self._n == 0:\n            self._min = +math.inf", "        if value != value:\n            raise ValueError(\"tally registered value cannot be nan\")\n        if self._n == 0:\n            self._min = +math.inf")])
benign('C10', 'weighted mean step through a local factor',
       [('statistics', "        self._weighted_mean += (weight / self._sum_of_weights \n                * (value - prev_weighted_mean))", "        c = weight / self._sum_of_weights\n        self._weighted_mean = prev_weighted_mean + c * (value - prev_weighted_mean)")])
seeded('C10', 'weighted mean as quotient of sums', 'R10.6',
       [('statistics', "        self._weighted_mean += (weight / self._sum_of_weights \n                * (value - prev_weighted_mean))", "        self._weighted_mean = (self._weighted_sum + weight * value) / self._sum_of_weights")])
benign('C13', 'driver iterates items()',
       [('streams', "        for key in streams.keys():\n            self.update_seed(key, streams[key], replication_nr)", "        for key, stream in streams.items():\n            self.update_seed(key, stream, replication_nr)")])
benign('C05', 'execute wraps BaseException explicitly',
       [('simevent', "            self._method(**self._kwargs)\n        except:", "            self._method(**self._kwargs)\n        except BaseException:")])
seeded('C05', 'execute wraps only Exception', 'R5.1',
       [('simevent', "            self._method(**self._kwargs)\n        except:", "            self._method(**self._kwargs)\n        except Exception:")], key='exception-classes')
benign('C18', 'dotted-key remainder via split with maxsplit',
       [('parameters', "            return self._value[parts[0]].remove(key[key.find('.') + 1:])", "            return self._value[parts[0]].remove(key.split('.', 1)[1])")])
seeded('C18', 'remove recurses with the second key element only', 'R18.10',
       [('parameters', "            return self._value[parts[0]].remove(key[key.find('.') + 1:])", "            return self._value[parts[0]].remove(parts[1])")])
seeded('C06', 'cleanup forgets the registered initial methods', 'R6.4',
       [('simulator', "            self.__worker.cleanup()\n            self.__worker = None\n", "            self.__worker.cleanup()\n            self.__worker = None\n        self._initial_methods.clear()\n")])
seeded('C11', 'class-level statistics registry', 'R11.3',
       [('model', "        self._output_statistics: Dict[str, StatisticsInterface] = {}\n", ""),
        ('model', "class DSOLModel(ModelInterface):\n", "class DSOLModel(ModelInterface):\n    _output_statistics: Dict[str, StatisticsInterface] = {}\n")], key='shared')
seeded('C15', 'geometric pmf through exp(lnp * k) (inf * 0 for p = 1)', 'R15.1',
       [('distributions', "            return self._p * (1.0 - self._p) ** observation", "            return self._p * math.exp(self._lnp * observation)")], key='DistGeometric')
seeded('C02', 'cancel_event skips events at the current time', 'R2.6',
       [('simulator', "        self._eventlist.remove(event)", "        if event.time <= self._simulator_time:\n            return\n        self._eventlist.remove(event)")])
seeded('C07', 'streams split with key-view set algebra', 'R7.1',
       [('streams', "        for key in streams.keys():\n            self.update_seed(key, streams[key], replication_nr)", "        for key in streams.keys() & streams.keys():\n            self.update_seed(key, streams[key], replication_nr)")], key='iterate')
seeded('C02', 'relative delay subtracted from the clock', 'R2.3',
       [('simulator', "        time = self._simulator_time + delay\n", "        time = self._simulator_time - delay\n")], key='schedule_event_rel')
seeded('C02', 'schedule_event_abs drops the priority', 'R2.7',
       [('simulator', "        return self.schedule_event(SimEvent(time,\n                 target, method, priority, **kwargs))\n\n    def cancel_event", "        return self.schedule_event(SimEvent(time,\n                 target, method, **kwargs))\n\n    def cancel_event")], key='schedule_event_abs')
seeded('C09', 'minimum updated with the wrong comparison', 'R9.7',
       [('statistics', "        self._sum += value\n        if value < self._min:\n            self._min = value", "        self._sum += value\n        if value > self._min:\n            self._min = value")], key='_min')
seeded('C09', 'sum accumulates the deviation instead of the value', 'R9.7',
       [('statistics', "        self._sum += value\n        if value < self._min:", "        self._sum += delta\n        if value < self._min:")], key='_sum')
seeded('C09', 'maximum only updated when the minimum was not', 'R9.7',
       [('statistics', "        self._sum += value\n        if value < self._min:\n            self._min = value\n        if value > self._max:", "        self._sum += value\n        if value < self._min:\n            self._min = value\n        elif value > self._max:")], key='_max')
benign('C09', 'min/max via builtins',
       [('statistics', "        self._sum += value\n        if value < self._min:\n            self._min = value\n        if value > self._max:\n            self._max = value", "        self._sum += value\n        if self._min > value:\n            self._min = value\n        if self._max < value:\n            self._max = value")])
seeded('C10', 'zero-weight observations are not counted', 'R10.7',
       [('statistics', "        self._n += 1\n        if weight == 0.0:\n            return\n        self._n_nonzero += 1", "        if weight == 0.0:\n            return\n        self._n += 1\n        self._n_nonzero += 1")], key='_n')
seeded('C10', 'weighted sum ignores the weight', 'R10.7',
       [('statistics', "        self._weighted_sum += weight * value;", "        self._weighted_sum += value;")], key='_weighted_sum')
seeded('C10', 'total weight counts zero-weight observations as one', 'R10.7',
       [('statistics', "        self._n += 1\n        if weight == 0.0:\n            return\n", "        self._n += 1\n        if weight == 0.0:\n            self._sum_of_weights += 1.0\n            return\n")], key='_sum_of_weights')
seeded('C12', 'next_float returns 1 - u (range (0, 1])', 'R12.6',
       [('streams', "        return self._random.random()\n", "        return 1.0 - self._random.random()\n")], key='next_float')

# ===================================================================================================== round 3 additions
seeded('C15', 'Normal inverse cdf forgets the factor sqrt(2)', 'R15.4',
       [('distributions', "        \"\"\"Return the x-value of the given cumulative probability y.\"\"\"\n        return self._mu + self._sigma * math.sqrt(2.0) * erf_inv(2.0 * y - 1.0)\n\n    def _set_stream",
         "        \"\"\"Return the x-value of the given cumulative probability y.\"\"\"\n        return self._mu + self._sigma * erf_inv(2.0 * y - 1.0)\n\n    def _set_stream")], key='DistNormal')
seeded('C15', 'LogNormal inverse cdf not exponentiated', 'R15.4',
       [('distributions', "        return math.exp(super().inverse_cumulative_probability(y))", "        return super().inverse_cumulative_probability(y)")], key='DistLogNormal')
seeded('C15', 'truncated normal cdf scaled by the lower tail only', 'R15.4',
       [('distributions', "                -self._cum_prob_lo) * self._prob_dens_factor)  ", "                -self._cum_prob_lo) / (1.0 - self._cum_prob_lo))  ")], key='DistNormalTrunc')
benign('C15', 'truncated normal cdf divides by the interval probability instead of multiplying by its reciprocal',
       [('distributions', "                -self._cum_prob_lo) * self._prob_dens_factor)  ", "                -self._cum_prob_lo) / self._cum_prob_diff)  ")])
benign('C15', 'Normal inverse cdf with reordered factors',
       [('distributions', "        return math.exp(super().inverse_cumulative_probability(y))", "        return math.exp(1.0 * super().inverse_cumulative_probability(y) + 0.0)")])
seeded('C18', 'children of all parameter maps in one class-level dict', 'R18.11',
       [('parameters', "class InputParameterMap(InputParameter):\n", "class InputParameterMap(InputParameter):\n    _children_by_key = {}\n"),
        ('parameters', "        self._value[input_parameter.key] = input_parameter", "        self._value[input_parameter.key] = input_parameter\n        self._children_by_key[input_parameter.key] = input_parameter")], key='_children_by_key')
seeded('C08', 'listener lists in a class-level dict', 'R8.8',
       [('pubsub', "        self._listeners: dict[EventType, list[EventListener]] = dict()", "        pass")], key='_listeners', accept_analysis_error=True)
seeded('C01', 'id counter incremented through type(self)', 'R1.4',
       [('simevent', "        self._id: int = SimEvent.__new_event_counter()", "        self._id: int = type(self).__new_event_counter()")], key='per-subclass')
seeded('C09', 'Tally maximum starts from the smallest positive float', 'R9.7',
       [('statistics', "            self._min = +math.inf\n            self._max = -math.inf\n        self._n += 1\n        delta = value - self._m1", "            self._min = +math.inf\n            self._max = 2.2250738585072014e-308\n        self._n += 1\n        delta = value - self._m1")], key='_max')
benign('C09', 'Tally.register counts with spelled-out additions',
       [('statistics', "        self._n += 1\n        delta = value - self._m1", "        self._n = self._n + 1\n        delta = value - self._m1")])
seeded('C05', 'strategy read once before the run loop', 'R5.1',
       [('simulator', "        self._runflag = True\n        while not self.is_stopping_or_stopped():", "        self._runflag = True\n        strategy = self._error_strategy\n        while not self.is_stopping_or_stopped():"),
        ('simulator', "                if self._error_strategy > ErrorStrategy.LOG_AND_CONTINUE:\n                    print(s + str(e))\n                    traceback.print_exc()\n                if self._error_strategy == ErrorStrategy.WARN_AND_PAUSE:",
         "                if strategy > ErrorStrategy.LOG_AND_CONTINUE:\n                    print(s + str(e))\n                    traceback.print_exc()\n                if strategy == ErrorStrategy.WARN_AND_PAUSE:")], key='stale-strategy')
benign('C05', 'strategy read into a local inside the handler',
       [('simulator', "                if self._error_strategy > ErrorStrategy.LOG_AND_CONTINUE:\n                    print(s + str(e))\n                    traceback.print_exc()\n                if self._error_strategy == ErrorStrategy.WARN_AND_PAUSE:",
         "                strategy = self._error_strategy\n                if strategy > ErrorStrategy.LOG_AND_CONTINUE:\n                    print(s + str(e))\n                    traceback.print_exc()\n                if strategy == ErrorStrategy.WARN_AND_PAUSE:")])
seeded('C12', 'next_int never returns hi (range one short)', 'R12.7',
       [('streams', "        return lo + math.floor((hi - lo + 1) * self._random.random())", "        return lo + math.floor((hi - lo) * self._random.random())")], key='range')
seeded('C12', 'next_int rounds instead of flooring (can return hi + 1)', 'R12.7',
       [('streams', "        return lo + math.floor((hi - lo + 1) * self._random.random())", "        return lo + round((hi - lo + 1) * self._random.random())")], key='range')
seeded('C12', 'next_int offset by one', 'R12.7',
       [('streams', "        return lo + math.floor((hi - lo + 1) * self._random.random())", "        return lo + 1 + math.floor((hi - lo) * self._random.random())")], key='range')
benign('C12', 'next_int with named intermediate values',
       [('streams', "        return lo + math.floor((hi - lo + 1) * self._random.random())", "        width = hi - lo + 1\n        u = self._random.random()\n        return lo + math.floor(width * u)")])
benign('C12', 'next_int through int() of a non-negative product',
       [('streams', "        return lo + math.floor((hi - lo + 1) * self._random.random())", "        return lo + int((hi - lo + 1) * self._random.random())")])
seeded('C14', 'Uniform draw scaled by hi instead of (hi - lo)', 'R14.7',
       [('distributions', "        return self._lo + (self._hi - self._lo) * self._stream.next_float()", "        return self._lo + self._hi * self._stream.next_float()")], key='bounds')
seeded('C14', 'Uniform constructor accepts hi == lo ... and lo > hi', 'R14.7',
       [('distributions', "        if hi <= lo:\n            raise ValueError(f\"parameter hi {hi} <= lo {lo}\")\n        self._lo = float(lo)\n        self._hi = float(hi)\n\n    def draw(self) -> float:\n        \"\"\"\n        Draw a value from the Uniform distribution.",
         "        self._lo = float(lo)\n        self._hi = float(hi)\n\n    def draw(self) -> float:\n        \"\"\"\n        Draw a value from the Uniform distribution.")], key='ordering-guard')
benign('C14', 'Uniform draw written as a convex combination of named parts',
       [('distributions', "        return self._lo + (self._hi - self._lo) * self._stream.next_float()", "        width = self._hi - self._lo\n        u = self._stream.next_float()\n        return self._lo + u * width")])
seeded('C15', 'Normal density normalised with sqrt(pi) instead of sqrt(2 pi)', 'R15.5',
       [('distributions', "        return (1.0 / (self._sigma * math.sqrt(2.0 * math.pi))\n                * math.exp(-0.5 * ((x - self._mu) / self._sigma) ** 2))\n        \n    def cumulative_probability(self, x: float) -> float:\n        \"\"\"Return the cumulative probability of x for this Normal distribution\"\"\"",
         "        return (1.0 / (self._sigma * math.sqrt(math.pi))\n                * math.exp(-0.5 * ((x - self._mu) / self._sigma) ** 2))\n        \n    def cumulative_probability(self, x: float) -> float:\n        \"\"\"Return the cumulative probability of x for this Normal distribution\"\"\"")], key='DistNormal')
seeded('C15', 'LogNormal density without the 1/x factor', 'R15.5',
       [('distributions', "                    / (x * self._c2pisigma2))", "                    / self._c2pisigma2)")], key='DistLogNormal')
benign('C15', 'LogNormal density with the exponent written through the field sigma',
       [('distributions', "            return (math.exp(-1 * xminmu * xminmu / self._c2sigma2) ", "            return (math.exp(-(xminmu ** 2) / (2.0 * self._sigma * self._sigma)) ")])
seeded('C14', 'Beta draw as a ratio that can exceed 1', 'R14.5',
       [('distributions', "        return y1 / (y1 + y2)", "        return (y1 + y2) / (y1 + 1.0)")], key='DistBeta')
benign('C14', 'Beta draw with the sum named',
       [('distributions', "        return y1 / (y1 + y2)", "        total = y1 + y2\n        return y1 / total")])

# ===================================================================================================== round 6 additions
seeded('C12', 'falsy seed treated as "no seed given"', 'R12.8',
       [('streams', "        if seed is None:\n            seed: int = round(", "        if not seed:\n            seed: int = round(")], key='seed-replaced')
benign('C12', 'seed fallback written with the parameter copied into a local first',
       [('streams', "        if seed is None:\n            seed: int = round(", "        given = seed\n        if given is None:\n            seed: int = round(")])
seeded('C09', 'confidence interval undefined for zero variance', 'R9.5',
       [('statistics', "        if math.isnan(mean) or math.isnan(self.stdev(False)):", "        if math.isnan(mean) or not self.stdev(False) > 0:")], key='confidence_interval')
seeded('C01', 'backing list created in the class body', 'R1.7',
       [('eventlist', "        self._event_list: list[SimEventInterface] = []\n        heapq.heapify(self._event_list)\n", "        self._event_list.clear()\n"),
        ('eventlist', "class EventListHeap(EventListInterface):\n", "class EventListHeap(EventListInterface):\n    _event_list: list = []\n")], key='shared')

# ===================================================================================================== round 9 additions
seeded('C02', 'Replication.end_sim_time reports the run length', 'R2.9',
       [('experiment', "        return self.run_control._end_sim_time\n", "        return self.run_control._end_sim_time - self.run_control._start_sim_time\n")], key='end_sim_time')
seeded('C03', 'RunControl stores the run length as end time', 'R3.6',
       [('experiment', "        self._end_sim_time: TIME = start_time + run_length\n", "        self._end_sim_time: TIME = run_length\n")], key='end_sim_time')
seeded('C11', 'warm-up time stored as the warm-up period', 'R11.9',
       [('experiment', "        self._warmup_sim_time: TIME = start_time + warmup_period\n", "        self._warmup_sim_time: TIME = warmup_period\n")], key='warmup_sim_time')
benign('C02', 'run length computed through a named local',
       [('experiment', "        return self._end_sim_time - self._start_sim_time\n", "        length = self._end_sim_time - self._start_sim_time\n        return length\n")])
benign('C11', 'Replication.warmup_period through the RunControl property',
       [('experiment', "        return self.run_control._warmup_sim_time - self.run_control._start_sim_time\n", "        return self.run_control.warmup_period\n")])
seeded('C16', 'dimensionless SI signature bound to a tuple', 'R16.7',
       [('units', "            self._sisig = [0, 0, 0, 0, 0, 0, 0, 0, 0]\n", "            self._sisig = (0, 0, 0, 0, 0, 0, 0, 0, 0)\n")], key='_sisig')
benign('C16', 'dimensionless SI signature built by repetition',
       [('units', "            self._sisig = [0, 0, 0, 0, 0, 0, 0, 0, 0]\n", "            self._sisig = [0] * 9\n")])
seeded('C12', 'default stream created once as a default argument', 'R12.9',
       [('streams', "    def __init__(self, default_stream: StreamInterface=None):\n        \"\"\"\n        Construct a StreamInformation object",
         "    def __init__(self, default_stream: StreamInterface=MersenneTwister(10)):\n        \"\"\"\n        Construct a StreamInformation object")], key='shared-default')
seeded('C01', 'remove() answers False after removing', 'R1.5',
       [('eventlist', "            heapq.heapify(self._event_list)\n            return True\n        return False", "            heapq.heapify(self._event_list)\n            return False\n        return False")], key='remove')
benign('C01', 'contains() written with the in operator',
       [('eventlist', "        return self._event_list.count((event.time, -event.priority,\n                                       event._id, event)) > 0",
         "        return (event.time, -event.priority, event._id, event) in self._event_list")])
seeded('C06', 'STARTING no longer counts as running', 'R6.1',
       [('simulator', "        return (self.run_state == RunState.STARTING or \\\n               self.run_state == RunState.STARTED)", "        return self.run_state == RunState.STARTED")], key='STARTING')
benign('C09', 'minimum updated on <= (an equal observation changes nothing)',
       [('statistics', "        self._sum += value\n        if value < self._min:\n", "        self._sum += value\n        if value <= self._min:\n")])
seeded('C10', 'weighted minimum never lowered below the first observation', 'R10.7',
       [('statistics', "            self._max = -math.inf\n        if value < self._min:\n            self._min = value\n",
         "            self._max = -math.inf\n        if value < self._min and self._n == 0:\n            self._min = value\n")], key='_min')
seeded('C08', 'per-listener removal stops at the first event type without the listener', 'R8.3',
       [('pubsub', "                for et in list(self._listeners.keys()):\n                    self.remove_listener(et, listener)",
         "                for et in list(self._listeners.keys()):\n                    if listener not in self._listeners[et]:\n                        break\n                    self.remove_listener(et, listener)")], key='remove_all_listeners')
benign('C08', 'per-listener removal over a snapshot of the items',
       [('pubsub', "                for et in list(self._listeners.keys()):\n                    self.remove_listener(et, listener)",
         "                for et, _subs in list(self._listeners.items()):\n                    self.remove_listener(et, listener)")])
seeded('C13', 'set_seed overwrites a zero original seed', 'R12.3',
       [('streams', "        self._seed: int = seed\n        self._random.seed(seed)", "        if not self._original_seed:\n            self._original_seed = seed\n        self._seed: int = seed\n        self._random.seed(seed)")], key='writes-original-seed')

# ===================================================================================================== round 10 additions
seeded('C15', 'erf_inv forgets the sign of its argument', 'R15.10',
       [('utils', "    return sign(y) * r\n", "    return r\n")], key='odd')
benign('C15', 'erf_inv applies the sign with a conditional expression',
       [('utils', "    return sign(y) * r\n", "    return -r if y < 0 else r\n")])
seeded('C08', 'delivery by any() stops at the first truthy result', 'R8.1',
       [('pubsub', "        for listener in self._listeners.get(event.event_type).copy():\n            listener.notify(event)",
         "        any(listener.notify(event) for listener in self._listeners.get(event.event_type).copy())")], key='short-circuit')
seeded('C12', 'bound random() kept in a field without __setstate__', 'R12.1',
       [('streams', "        self._random: Random = Random()\n", "        self._random: Random = Random()\n        self._draw = self._random.random\n"),
        ('streams', "        return self._random.random()\n", "        return self._draw()\n")], key='escape')
benign('C12', 'generator created with its seed',
       [('streams', "        self._random: Random = Random()\n        self.set_seed(seed)\n", "        self._random: Random = Random(seed)\n        self._seed: int = seed\n")])
seeded('C13', 'isinstance short-cut to a fallback helper', 'R13.9',
       [('streams', "            self._fallback_stream_updater.update_seed(stream_id, stream,\n                                                      replication_nr)\n",
         "            if isinstance(self._fallback_stream_updater, SimpleStreamUpdater):\n                self._fallback_stream_updater._formula(stream_id, stream, replication_nr)\n"
         "            else:\n                self._fallback_stream_updater.update_seed(stream_id, stream, replication_nr)\n"),
        ('streams', "        stream.set_seed(stream.original_seed() + replication_nr * \n                        (1_000_037 + zlib.crc32(stream_id.encode('utf-8'))))",
         "        self._formula(stream_id, stream, replication_nr)\n\n    @staticmethod\n    def _formula(stream_id, stream, replication_nr):\n"
         "        stream.set_seed(stream.original_seed() + replication_nr * \n                        (1_000_037 + zlib.crc32(stream_id.encode('utf-8'))))")], key='devirtualised')
seeded('C16', 'Quantity.__ge__ written as not <', 'R16.6',
       [('units', "        if not type(self) == type(other):\n            raise TypeError(f\"comparing incompatible quantities \" \n                    +f\"{type(self).__name__} and {type(other).__name__}\")\n        return float(self) >= float(other)", "        if not type(self) == type(other):\n            raise TypeError(f\"comparing incompatible quantities \" \n                    +f\"{type(self).__name__} and {type(other).__name__}\")\n        return not float(self) < float(other)")], key='__ge__')
benign('C16', 'Quantity.__lt__ through the float slot wrapper',
       [('units', "        if not type(self) == type(other):\n            raise TypeError(f\"comparing incompatible quantities \" \n                    +f\"{type(self).__name__} and {type(other).__name__}\")\n        return float(self) < float(other)", "        if not type(self) == type(other):\n            raise TypeError(f\"comparing incompatible quantities \" \n                    +f\"{type(self).__name__} and {type(other).__name__}\")\n        return float.__lt__(self, other)")])
seeded('C17', 'Quantity.__eq__ with an identity fast path', 'R16.6',
       [('units', "        if type(self) != type(other):\n            return False\n        return float(self) == float(other)",
         "        if other is self:\n            return True\n        if type(self) != type(other):\n            return False\n        return float(self) == float(other)")], key='__eq__')
seeded('C18', 'remove() descends with the first element kept in the key', 'R18.10',
       [('parameters', "            return self._value[parts[0]].remove(key[key.find('.') + 1:])", "            return self._value[parts[0]].remove(key[key.find('.'):])")], key='remove')
benign('C18', 'get() descends with the joined rest of the parts',
       [('parameters', "            return self._value[parts[0]].get(key[key.find('.') + 1:])", "            return self._value[parts[0]].get('.'.join(parts[1:]))")])

# ===================================================================================================== round 11 additions
seeded('C15', 'Pearson5 helper gamma with the scale not inverted', 'R15.11',
       [('distributions', "        self._dist = DistGamma(stream, self._alpha, 1.0 / self._beta)", "        self._dist = DistGamma(stream, self._alpha, self._beta)")], key='DistPearson5')
benign('C15', 'Pearson5 helper gamma with the reciprocal named first',
       [('distributions', "        self._dist = DistGamma(stream, self._alpha, 1.0 / self._beta)", "        rate = self._beta\n        self._dist = DistGamma(stream, self._alpha, 1.0 / rate)")])
seeded('C11', 'weighted simulation tally accepts plain data events', 'R11.2',
       [('statistics', "        self._event_types: set[EventType] = {StatEvents.WEIGHT_DATA_EVENT}", "        self._event_types: set[EventType] = {StatEvents.DATA_EVENT}")], key='accepted-type')
seeded('C14', 'buffered gaussian kept when the same stream is assigned again', 'R14.3',
       [('distributions', "        super()._set_stream(stream)\n        self._have_saved_gaussian = False  # helper variable",
         "        same = stream is self.__dict__.get('_stream')\n        super()._set_stream(stream)\n        if same:\n            return\n        self._have_saved_gaussian = False  # helper variable")], key='not-invalidated')
seeded('C05', 'error class renders its message lazily', 'R5.6',
       [('simevent', "        except:\n            raise(DSOLError(f\"method {self._method}(..) is not callable \" \\\n                +f\"on {self._target} with arguments {self._kwargs}\"))",
         "        except:\n            raise _ExecuteError(self)"),
        ('simevent', "class SimEventInterface(ABC):", "class _ExecuteError(DSOLError):\n    def __init__(self, event):\n        super().__init__(event)\n        self.event = event\n\n    def __str__(self):\n        return f\"method {self.event._method}(..) is not callable on {self.event._target}\"\n\n\nclass SimEventInterface(ABC):")], key='lazy-text')

# ===================================================================================================== round 12 additions
_RS = "        self._random.setstate(state)"
seeded('C12', 'restore_state refuses the position right after seeding', 'R12.15',
       [('streams', _RS, "        if isinstance(state, tuple) and len(state) == 3 and state[0] == 3:\n            if not 0 <= state[1][-1] < 624:\n"
                         "                raise ValueError('position outside the state vector')\n" + _RS)], key='refuses-saved-state')
seeded('C12', 'restore_state insists on a buffered gaussian', 'R12.15',
       [('streams', _RS, "        version, internal, gauss_next = state\n        if not isinstance(gauss_next, float):\n"
                         "            raise TypeError('gauss_next should be a float')\n" + _RS)], key='refuses-saved-state')
seeded('C12', 'restore_state counts 624 items', 'R12.15',
       [('streams', _RS, "        if len(state[1]) != 624:\n            raise ValueError('internal state should have 624 words')\n" + _RS)], key='refuses-saved-state')
benign('C12', 'restore_state checks the layout of the saved state first',
       [('streams', _RS, "        if not isinstance(state, (tuple, list)) or len(state) != 3:\n            raise TypeError('not a saved state')\n"
                         "        version, internal, gauss_next = state\n        if version == 3:\n"
                         "            if len(internal) != 625 or not all(isinstance(w, int) for w in internal):\n                raise ValueError('bad internal state')\n"
                         "            if not 1 <= internal[-1] <= 624:\n                raise ValueError('position outside the state vector')\n"
                         "            if gauss_next is not None and not isinstance(gauss_next, float):\n                raise TypeError('bad gauss_next')\n" + _RS)])
benign('C12', 'restore_state checks the words in a loop',
       [('streams', _RS, "        for w in state[1][:624]:\n            if not 0 <= w < 2 ** 32:\n                raise ValueError('word out of range')\n" + _RS)])
_WT_END = "        self._weighted_sum += weight * value;\n"
_MERGE_HEAD = ("\n    def merge(self, other):\n        if not isinstance(other, WeightedTally):\n            raise TypeError('other should be a WeightedTally')\n"
               "        if other._n == 0:\n            return\n"
               "        self._min = other._min if self._n == 0 else min(self._min, other._min)\n"
               "        self._max = other._max if self._n == 0 else max(self._max, other._max)\n"
               "        self._n += other._n\n        if other._sum_of_weights == 0.0:\n            return\n"
               "        self._n_nonzero += other._n_nonzero\n        self._sum_of_weights += other._sum_of_weights\n"
               "        prev = self._weighted_mean\n"
               "        self._weighted_mean += other._sum_of_weights / self._sum_of_weights * (other._weighted_mean - prev)\n")
benign('C10', 'merge of another weighted tally (pooled moments)',
       [('statistics', _WT_END, _WT_END + _MERGE_HEAD +
         "        self._weight_times_variance += (other._weight_times_variance + other._sum_of_weights * (other._weighted_mean - prev)\n"
         "                * (other._weighted_mean - self._weighted_mean))\n        self._weighted_sum += other._weighted_sum\n")])
seeded('C10', 'merge adds the second moments without the between-groups term', 'R10.6',
       [('statistics', _WT_END, _WT_END + _MERGE_HEAD +
         "        self._weight_times_variance += other._weight_times_variance\n        self._weighted_sum += other._weighted_sum\n")], key='not-convex')
seeded('C10', 'merge divides by the weight of the other tally only', 'R10.6',
       [('statistics', _WT_END, _WT_END + _MERGE_HEAD.replace("other._sum_of_weights / self._sum_of_weights", "self._sum_of_weights / other._sum_of_weights") +
         "        self._weight_times_variance += (other._weight_times_variance + other._sum_of_weights * (other._weighted_mean - prev)\n"
         "                * (other._weighted_mean - self._weighted_mean))\n        self._weighted_sum += other._weighted_sum\n")], key='not-convex')
_CN = "        if not isinstance(event.content, int):\n            raise TypeError(f\"notification {event.content} for counter \" + \\\n                            \"is not an int\")\n        self.register(event.content)\n"
benign('C09', 'counter accepts a batch that is checked as a whole first',
       [('statistics', _CN, "        values = event.content if isinstance(event.content, (list, tuple)) else (event.content,)\n"
                            "        if not all(isinstance(v, int) for v in values):\n            raise TypeError('notification for counter is not an int')\n"
                            "        for v in values:\n            self.register(v)\n")])
seeded('C09', 'counter accepts a batch and checks each value just before registering it', 'R9.2',
       [('statistics', _CN, "        values = event.content if isinstance(event.content, (list, tuple)) else (event.content,)\n"
                            "        for v in values:\n            if not isinstance(v, int):\n                raise TypeError('notification for counter is not an int')\n"
                            "            self.register(v)\n")], key='')
seeded('C09', 'counter batch: the checked list is extended before it is registered', 'R9.2',
       [('statistics', _CN, "        values = list(event.content) if isinstance(event.content, (list, tuple)) else [event.content]\n"
                            "        if not all(isinstance(v, int) for v in values):\n            raise TypeError('notification for counter is not an int')\n"
                            "        values.append(event.source)\n"
                            "        for v in values:\n            self.register(v)\n")], key='')
_DL = "        for listener in self._listeners.get(event.event_type).copy():\n            listener.notify(event)\n"
_DLT = "        for listener in self._listeners.get(timed_event.event_type).copy():\n            listener.notify(timed_event)\n"


def _both(new):
    return [('pubsub', _DL, new), ('pubsub', _DLT, new.replace('event.event_type', 'timed_event.event_type').replace('notify(event)', 'notify(timed_event)'))]


benign('C08', 'delivery loop resolves the entry and skips None',
       _both("        for entry in self._listeners.get(event.event_type).copy():\n            listener = entry\n"
             "            if listener is not None:\n                listener.notify(event)\n"))
benign('C08', 'delivery loop with a test for a foreign wrapper class',
       _both("        for entry in self._listeners.get(event.event_type).copy():\n"
             "            listener = entry() if isinstance(entry, type) else entry\n            listener.notify(event)\n"))
seeded('C08', 'delivery loop skips listeners that are falsy', 'R8.1',
       _both("        for listener in self._listeners.get(event.event_type).copy():\n            if listener:\n                listener.notify(event)\n"),
       key='conditional')
seeded('C08', 'delivery loop skips listeners that are producers too', 'R8.1',
       _both("        for listener in self._listeners.get(event.event_type).copy():\n"
             "            if not isinstance(listener, EventProducer):\n                listener.notify(event)\n"), key='conditional')
_EP = "class EventProducer:\n"
_ADAPTER = ("class _FnListener(EventListener):\n    def __init__(self, fn, name=''):\n        self._fn = fn\n        self._name = name\n\n"
            "    def notify(self, event):\n        self._fn(event)\n\n    def __eq__(self, other):\n        return isinstance(other, _FnListener) and %s\n\n"
            "    def __hash__(self):\n        return hash(self._fn)\n\n\n")
benign('C08', 'adapter listener whose equality is that of the wrapped callable',
       [('pubsub', _EP, _ADAPTER % "self._fn == other._fn" + _EP)])
seeded('C08', 'adapter listener compared by its label', 'R8.9',
       [('pubsub', _EP, _ADAPTER % "self._name == other._name" + _EP)], key='value-equality')

# ===================================================================================================== round 13 additions
seeded('C16', 'SI product derives its unit text with hat and dot swapped', 'R16.9',
       [('units', "            ret._unit = ret.siunit(True, '', '.') \n", "            ret._unit = ret.siunit(True, '.', '') \n")], key='unit-text-format')
benign('C16', 'unit text derived with keyword arguments',
       [('units', "        self._unit = self.siunit(True, '', '.')", "        self._unit = self.siunit(div=True, dot='.', hat='')")])
seeded('C15', 'Poisson draw starts counting at zero with the post-test loop', 'R14.5',
       [('distributions', "        s = 1.0\n        x = -1\n        while True:\n            s *= self._stream.next_float()", 
         "        s = 1.0\n        x = 0\n        while True:\n            s *= self._stream.next_float()")], key='minimum-never-drawn')
benign('C15', 'Poisson draw as a pre-test loop',
       [('distributions', "        s = 1.0\n        x = -1\n        while True:\n            s *= self._stream.next_float()\n            x += 1\n            if s <= self._expl:\n                break\n        return x\n",
         "        s = self._stream.next_float()\n        x = 0\n        while s > self._expl:\n            s *= self._stream.next_float()\n            x += 1\n        return x\n")])
seeded('C05', 'cleanup falls back to the default error strategy', 'R5.7',
       [('simulator', "        self._run_state = RunState.NOT_INITIALIZED\n", "        self._run_state = RunState.NOT_INITIALIZED\n        self._error_strategy = ErrorStrategy.WARN_AND_PAUSE\n")], key='resets-_error_strategy')
