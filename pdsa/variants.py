"""Variants of the current tree for the checker self-test (pdsa.selftest).

seeded(name, expect_rule, [(module, old, new)], key=fragment)  -- must be reported by that rule
benign(name, [(module, old, new)])                              -- behaviour-preserving rewrite: must stay silent
The anchor texts are exact fragments of the current sources (LF line ends); a variant whose anchor is gone is skipped.
"""
VARIANTS = {}


def seeded(pid, name, expect, edits, key='', **kw):
    VARIANTS.setdefault(pid, []).append(dict(name=name, kind='seeded', expect=expect, edits=edits, key=key, **kw))


def benign(pid, name, edits):
    VARIANTS.setdefault(pid, []).append(dict(name=name, kind='benign', edits=edits))


# =====================================================================================================  C01
EL_REMOVE = ("            self._event_list.remove((event.time, -event.priority,\n"
             "                                     event._id, event))\n"
             "            heapq.heapify(self._event_list)\n")
seeded('C01', 'heapify removed from remove()', 'R1.1',
       [('eventlist', EL_REMOVE, "            self._event_list.remove((event.time, -event.priority,\n                                     event._id, event))\n")])
seeded('C01', 'add() appends instead of heappush', 'R1.1',
       [('eventlist', "        heapq.heappush(self._event_list, (event.time, -event.priority,\n                                          event._id, event))",
         "        self._event_list.append((event.time, -event.priority,\n                                          event._id, event))")])
seeded('C01', 'priority sign dropped in the heap key', 'R1.2',
       [('eventlist', "        heapq.heappush(self._event_list, (event.time, -event.priority,\n", "        heapq.heappush(self._event_list, (event.time, event.priority,\n")])
seeded('C01', 'contains() looks up a key without the priority sign', 'R1.2',
       [('eventlist', "        return self._event_list.count((event.time, -event.priority,\n", "        return self._event_list.count((event.time, event.priority,\n")],
       key='contains')
seeded('C01', 'peek_first returns the id component', 'R1.5',
       [('eventlist', "        return self._event_list[0][3]", "        return self._event_list[0][2]")], key='peek_first')
seeded('C01', 'pop_first without emptiness guard', 'R1.5',
       [('eventlist', "        if self.is_empty():\n            return None\n        return heapq.heappop(self._event_list)[3]", "        return heapq.heappop(self._event_list)[3]")],
       key='pop_first')
seeded('C01', '__cmp__: priority branches swapped', 'R1.6',
       [('simevent', "        if (self._priority < other._priority):\n            return 1", "        if (self._priority < other._priority):\n            return -1"),
        ('simevent', "        if (self._priority > other._priority):\n            return -1", "        if (self._priority > other._priority):\n            return 1")],
       key='__cmp__')
seeded('C01', '__lt__ made non-strict', 'R1.6',
       [('simevent', "    def __lt__(self, other: SimEventInterface) -> bool:\n        return self.__cmp__(other) < 0", "    def __lt__(self, other: SimEventInterface) -> bool:\n        return self.__cmp__(other) <= 0")],
       key='__lt__')
seeded('C01', 'setter added for SimEvent.time', 'R1.3',
       [('simevent', "    @property \n    def priority(self) -> int: \n", "    @time.setter\n    def time(self, value):\n        self._absolute_time = value\n\n    @property \n    def priority(self) -> int: \n")])
seeded('C01', 'id counter can be reset from outside', 'R1.4',
       [('simevent', "    def __cmp__(self, other: SimEventInterface) -> int:", "    @classmethod\n    def reset_counter(cls):\n        cls.__event_counter = 0\n\n    def __cmp__(self, other: SimEventInterface) -> int:")])
seeded('C01', 'size() off by one', 'R1.5',
       [('eventlist', "        return len(self._event_list)", "        return len(self._event_list) - 1")], key='size')
seeded('C01', 'backing list handed out', 'R1.1',
       [('eventlist', "    def __str__(self) -> str:\n        s = \"[\"", "    def events(self):\n        return self._event_list\n\n    def __str__(self) -> str:\n        s = \"[\"")], key='escape')
benign('C01', 'contains via `in` instead of count() > 0',
       [('eventlist', "        return self._event_list.count((event.time, -event.priority,\n                                       event._id, event)) > 0",
         "        return (event.time, -event.priority,\n                                       event._id, event) in self._event_list")])
benign('C01', 'remove via index / swap-with-last / sift',
       [('eventlist', EL_REMOVE,
         "            i = self._event_list.index((event.time, -event.priority,\n                                     event._id, event))\n"
         "            last = self._event_list.pop()\n"
         "            if i < len(self._event_list):\n                self._event_list[i] = last\n                heapq._siftup(self._event_list, i)\n                heapq._siftdown(self._event_list, 0, i)\n")])
benign('C01', 'is_empty as `not list`',
       [('eventlist', "        return self.size() == 0", "        return not self._event_list")])
benign('C01', 'key written with 0 - priority',
       [('eventlist', "        heapq.heappush(self._event_list, (event.time, -event.priority,\n", "        heapq.heappush(self._event_list, (event.time, 0 - event.priority,\n"),
        ('eventlist', "        return self._event_list.count((event.time, -event.priority,\n", "        return self._event_list.count((event.time, 0 - event.priority,\n"),
        ('eventlist', "            self._event_list.remove((event.time, -event.priority,\n", "            self._event_list.remove((event.time, 0 - event.priority,\n")])

# =====================================================================================================  C02
RUN_EXEC = "            self._simulator_time = event.time\n            try:\n                event.execute()\n"
seeded('C02', 'execute() deleted from _run', 'R2.1',
       [('simulator', RUN_EXEC, "            self._simulator_time = event.time\n            try:\n                pass\n")])
seeded('C02', 'execute() before the clock write in _run', 'R2.1',
       [('simulator', RUN_EXEC, "            try:\n                event.execute()\n                self._simulator_time = event.time\n")], key='execute-before-clock')
seeded('C02', 'execute() doubled in _run', 'R2.1',
       [('simulator', RUN_EXEC, "            self._simulator_time = event.time\n            try:\n                event.execute()\n                event.execute()\n")], key='execute-twice')
seeded('C02', 'clock set to the bound instead of the event time in _step_impl', 'R2.1',
       [('simulator', "                            event.time)\n            self._simulator_time = event.time\n            event.execute()", "                            event.time)\n            self._simulator_time = self._run_until_time\n            event.execute()")])
seeded('C02', 'admission guard back to `<` (accepts NaN)', 'R2.3',
       [('simulator', "        if not event.time >= self._simulator_time:", "        if event.time < self._simulator_time:")], key='schedule_event')
seeded('C02', 'admission guard `<=` (refuses now)', 'R2.3',
       [('simulator', "        if not event.time >= self._simulator_time:", "        if not event.time > self._simulator_time:")], key='schedule_event')
seeded('C02', 'admission guard deleted', 'R2.3',
       [('simulator', "        if not event.time >= self._simulator_time:\n            raise DSOLError(\"cannot schedule event in the past\")\n        self._eventlist.add(event)", "        self._eventlist.add(event)")])
seeded('C02', 'raw eventlist.add in a new public method', 'R2.3',
       [('simulator', "    def cancel_event(self, event: SimEventInterface):", "    def schedule_event_unchecked(self, event: SimEventInterface):\n        self._eventlist.add(event)\n        return event\n\n    def cancel_event(self, event: SimEventInterface):")],
       key='schedule_event_unchecked')
seeded('C02', 'delay compared with literal 0 again', 'R2.4',
       [('simulator', "        time = self._simulator_time + delay\n        if not time >= self._simulator_time:", "        time = self._simulator_time + delay\n        if delay < 0 or not time >= self._simulator_time:")])
seeded('C02', 'unguarded clock := bound in _run', 'R2.5',
       [('simulator', "                if self._run_until_time > self._simulator_time:\n                    self._simulator_time = self._run_until_time\n", "                self._simulator_time = self._run_until_time\n")])
seeded('C02', 'cancel_event removes and clears', 'R2.6',
       [('simulator', "        self._eventlist.remove(event)", "        self._eventlist.remove(event)\n        self._eventlist.clear()")])
benign('C02', 'admission guard as `t < clock or t != t`',
       [('simulator', "        if not event.time >= self._simulator_time:", "        if event.time < self._simulator_time or event.time != event.time:")])
benign('C02', 'clock write guarded with max()',
       [('simulator', "                if self._run_until_time > self._simulator_time:\n                    self._simulator_time = self._run_until_time\n", "                self._simulator_time = max(self._simulator_time, self._run_until_time)\n")])
benign('C02', 'popped event renamed in _step_impl',
       [('simulator', "            event: SimEventInterface = self._eventlist.pop_first()\n            self.fire_timed(event.time, Simulator.TIME_CHANGED_EVENT,\n                            event.time)\n            self._simulator_time = event.time\n            event.execute()",
         "            nxt: SimEventInterface = self._eventlist.pop_first()\n            self.fire_timed(nxt.time, Simulator.TIME_CHANGED_EVENT,\n                            nxt.time)\n            self._simulator_time = nxt.time\n            nxt.execute()")])

# =====================================================================================================  C03
HORIZON = ("            if (t > self._run_until_time or (t == self._run_until_time \\\n"
           "                    and not self._run_until_including) \n"
           "                    or self.eventlist().is_empty()):\n")
seeded('C03', 'horizon test `>=` (inclusive bound ignored)', 'R3.1',
       [('simulator', HORIZON, "            if (t >= self._run_until_time or self.eventlist().is_empty()):\n")], key='horizon')
seeded('C03', 'horizon test ignores the exclusive case', 'R3.1',
       [('simulator', HORIZON, "            if (t > self._run_until_time or self.eventlist().is_empty()):\n")], key='horizon')
seeded('C03', 'run_up_to runs inclusively', 'R3.1',
       [('simulator', "        self._start_impl(stop_time, False)", "        self._start_impl(stop_time, True)")], key='run_up_to')
seeded('C03', 'start() runs to the warm-up time', 'R3.1',
       [('simulator', "        self._start_impl(self._replication.end_sim_time, True)", "        self._start_impl(self._replication.warmup_sim_time, True)")], key='start')
seeded('C03', 'ENDING unconditional again', 'R3.2',
       [('simulator', "                if self._simulator_time >= self._replication.end_sim_time:\n                    self._replication_state = ReplicationState.ENDING\n", "                self._replication_state = ReplicationState.ENDING\n")])
seeded('C03', 'pop in _run moved before the horizon test', 'R3.3',
       [('simulator', "            # check if we are done\n            if self.eventlist().is_empty():\n                t = self._run_until_time", "            # check if we are done\n            early = self.eventlist().pop_first()\n            if self.eventlist().is_empty():\n                t = self._run_until_time")],
       key='_run')
benign('C03', 'horizon test rewritten with a local flag',
       [('simulator', HORIZON, "            beyond = t > self._run_until_time\n            at_bound = t == self._run_until_time and not self._run_until_including\n            if beyond or at_bound or self.eventlist().is_empty():\n")])
benign('C03', 'ENDING guard on `not clock < end`',
       [('simulator', "                if self._simulator_time >= self._replication.end_sim_time:\n                    self._replication_state = ReplicationState.ENDING\n", "                if not self._simulator_time < self._replication.end_sim_time:\n                    self._replication_state = ReplicationState.ENDING\n")])

# =====================================================================================================  C04
seeded('C04', 'start() writes the bound before _start_impl again', 'R4.1',
       [('simulator', "        self._start_impl(self._replication.end_sim_time, True)", "        self._run_until_time = self._replication.end_sim_time\n        self._start_impl(self._replication.end_sim_time, True)")],
       key='Simulator.start')
seeded('C04', 'stop() fires STOPPING before its guard', 'R4.1',
       [('simulator', "        if self.is_stopping_or_stopped():\n            raise DSOLError(\"cannot stop an already stopped simulator\")\n        self.fire(Simulator.STOPPING_EVENT, None)",
         "        self.fire(Simulator.STOPPING_EVENT, None)\n        if self.is_stopping_or_stopped():\n            raise DSOLError(\"cannot stop an already stopped simulator\")")], key='Simulator.stop')
seeded('C04', 'initialize clears the event list before validating', 'R4.1',
       [('simulator', "        if not isinstance(model, ModelInterface):\n            raise DSOLError(f\"model {model} not valid\")\n        if not hasattr(model, '_simulator'):\n            raise DSOLError(f\"model {model} does not have a simulator. \" + \n                \"Did you call super.__init__(...) in the model constructor?\")\n        if not isinstance(replication, ReplicationInterface):\n            raise DSOLError(f\"replication {replication} not valid\")\n        self._eventlist.clear()\n",
         "        self._eventlist.clear()\n")], key='DEVSSimulator.initialize')
seeded('C04', '_start_impl: running-guard dropped', 'R4.2',
       [('simulator', "        if self.is_starting_or_running():\n            raise DSOLError(\"cannot start a running simulator\")\n        if self._replication == None:\n            raise DSOLError(\"no replication details\")\n        if not self.is_initialized():",
         "        if self._replication == None:\n            raise DSOLError(\"no replication details\")\n        if not self.is_initialized():")], key='start')
seeded('C04', 'step(): replication-state guard `and` -> `or`', 'R4.2',
       [('simulator', "        if (self._replication_state != ReplicationState.INITIALIZED \\\n                and self.replication_state != ReplicationState.STARTED):", "        if (self._replication_state != ReplicationState.INITIALIZED \\\n                or self.replication_state != ReplicationState.STARTED):")], key='step')
seeded('C04', 'stop() admitted only in STARTED', 'R4.2',
       [('simulator', "        return not self.is_starting_or_running()", "        return not self.run_state == RunState.STARTED")], key='stop')
seeded('C04', 'clock guard `>` instead of `>=` in _start_impl', 'R4.2',
       [('simulator', "        if self._simulator_time >= self._replication.end_sim_time:\n            raise DSOLError(\"cannot start: simulator_time > run length\")\n        self._run_until_time", "        if self._simulator_time > self._replication.end_sim_time:\n            raise DSOLError(\"cannot start: simulator_time > run length\")\n        self._run_until_time")], key='start')
seeded('C04', 'STOP_EVENT fire deleted in the worker', 'R4.3',
       [('simulator', "                        self._job._run()\n                        self._job.fire_timed(self._job.simulator_time,\n                            Simulator.STOP_EVENT, None)\n", "                        self._job._run()\n")], key='START-without-STOP')
seeded('C04', 'START_REPLICATION fired without state test', 'R4.3',
       [('simulator', "        self._run_state = RunState.STARTING\n        if self._replication_state == ReplicationState.INITIALIZED:\n            self.fire_timed(self._simulator_time,\n                ReplicationInterface.START_REPLICATION_EVENT, None)\n            self._replication_state = ReplicationState.STARTED\n",
         "        self._run_state = RunState.STARTING\n        self.fire_timed(self._simulator_time,\n            ReplicationInterface.START_REPLICATION_EVENT, None)\n        self._replication_state = ReplicationState.STARTED\n")], key='START_REPLICATION_EVENT')
seeded('C04', 'TIME_CHANGED carries the old clock', 'R4.3',
       [('simulator', "            self.fire_timed(event.time, Simulator.TIME_CHANGED_EVENT,\n                            event.time)\n            self._simulator_time = event.time\n            event.execute()", "            self.fire_timed(self._simulator_time, Simulator.TIME_CHANGED_EVENT,\n                            event.time)\n            self._simulator_time = event.time\n            event.execute()")], key='TIME_CHANGED')
seeded('C04', 'warm-up scheduled twice', 'R4.3',
       [('simulator', "        self.schedule_event_abs(self.replication.warmup_sim_time,\n            self, \"warmup\", priority=SimEventInterface.MAX_PRIORITY)", "        for _ in range(2):\n            self.schedule_event_abs(self.replication.warmup_sim_time,\n                self, \"warmup\", priority=SimEventInterface.MAX_PRIORITY)")], key='warmup')
seeded('C04', 'clear() moved back to the end of the worker loop', 'R4.4',
       [('simulator', "            self.__wakeup_flag.wait()\n            self.__wakeup_flag.clear()\n            self._running = True\n", "            self.__wakeup_flag.wait()\n            self._running = True\n"),
        ('simulator', "                    self._finalized = True\n            self._running = False\n", "                    self._finalized = True\n            self.__wakeup_flag.clear()\n            self._running = False\n")])
seeded('C04', 'end_replication guard dropped', 'R4.6',
       [('simulator', "        if not self.is_initialized():\n            raise DSOLError(\"cannot end the replication of an uninitialized simulator\")\n", "")], key='end_replication')
seeded('C04', 'worker never finalized after END_REPLICATION', 'R4.7',
       [('simulator', "                        ReplicationInterface.END_REPLICATION_EVENT, None)\n                    self._finalized = True\n", "                        ReplicationInterface.END_REPLICATION_EVENT, None)\n")])
seeded('C04', 'set_error_strategy stores before validating', 'R4.1',
       [('simulator', "        if not error_strategy in ErrorStrategy.LOG_LEVELS:\n            raise ValueError(\"None-existent error strategy for simulator\")\n        self._error_strategy = error_strategy\n", "        self._error_strategy = error_strategy\n        if not error_strategy in ErrorStrategy.LOG_LEVELS:\n            raise ValueError(\"None-existent error strategy for simulator\")\n")], key='set_error_strategy')
benign('C04', 'guards of _start_impl rewritten by De Morgan / inlined predicate',
       [('simulator', "        if not (self._replication_state == ReplicationState.INITIALIZED \\\n                or self.replication_state == ReplicationState.STARTED):\n            raise DSOLError(\"replication state not INITIALIZED or STARTED\")\n        if self._simulator_time >= self._replication.end_sim_time:\n            raise DSOLError(\"cannot start: simulator_time > run length\")\n        self._run_until_time",
         "        if (self._replication_state != ReplicationState.INITIALIZED \\\n                and self._replication_state != ReplicationState.STARTED):\n            raise DSOLError(\"replication state not INITIALIZED or STARTED\")\n        if not self._simulator_time < self._replication.end_sim_time:\n            raise DSOLError(\"cannot start: simulator_time > run length\")\n        self._run_until_time")])
benign('C04', 'stop() guard written on the run state directly',
       [('simulator', "        if self.is_stopping_or_stopped():\n            raise DSOLError(\"cannot stop an already stopped simulator\")", "        if not (self._run_state == RunState.STARTING or self._run_state == RunState.STARTED):\n            raise DSOLError(\"cannot stop an already stopped simulator\")")])
benign('C04', 'worker dereference guarded by is-not-None',
       [('simulator', "        self._replication_state = ReplicationState.ENDING\n        self.__worker.wakeup()  # just to be sure", "        self._replication_state = ReplicationState.ENDING\n        if self.__worker is not None:\n            self.__worker.wakeup()  # just to be sure")])

# =====================================================================================================  C05
seeded('C05', 'LOG_AND_CONTINUE breaks out of the loop', 'R5.1',
       [('simulator', "                if self._error_strategy == ErrorStrategy.WARN_AND_PAUSE:\n                    self._run_state = RunState.STOPPING\n", "                if self._error_strategy == ErrorStrategy.LOG_AND_CONTINUE:\n                    break\n                if self._error_strategy == ErrorStrategy.WARN_AND_PAUSE:\n                    self._run_state = RunState.STOPPING\n")], key='LOG_AND_CONTINUE')
seeded('C05', 'WARN_AND_CONTINUE clears the event list', 'R5.1',
       [('simulator', "                    print(s + str(e))\n                    traceback.print_exc()\n", "                    print(s + str(e))\n                    traceback.print_exc()\n                    if self._error_strategy == ErrorStrategy.WARN_AND_CONTINUE:\n                        self._eventlist.clear()\n")], key='WARN_AND_CONTINUE')
seeded('C05', 'WARN_AND_PAUSE also ends the replication', 'R5.1',
       [('simulator', "                if self._error_strategy == ErrorStrategy.WARN_AND_PAUSE:\n                    self._run_state = RunState.STOPPING\n", "                if self._error_strategy == ErrorStrategy.WARN_AND_PAUSE:\n                    self._run_state = RunState.STOPPING\n                    self._replication_state = ReplicationState.ENDING\n")], key='WARN_AND_PAUSE')
seeded('C05', 'pause threshold off by one (continue strategy pauses)', 'R5.1',
       [('simulator', "                if self._error_strategy == ErrorStrategy.WARN_AND_PAUSE:\n                    self._run_state", "                if self._error_strategy >= ErrorStrategy.WARN_AND_CONTINUE and self._error_strategy <= ErrorStrategy.WARN_AND_PAUSE:\n                    self._run_state")], key='WARN_AND_CONTINUE')
seeded('C05', 'handler catches only DSOLError', 'R5.1',
       [('simulator', "                event.execute()\n            except Exception as e:\n                s = ", "                event.execute()\n            except DSOLError as e:\n                s = ")])
seeded('C05', 'str + exception in step() again', 'R5.2',
       [('simulator', "            print(\"Simulator step got exception: \" + str(e))", "            print(\"Simulator step got exception: \" + e)")])
seeded('C05', 'step(): STOPPED set in the try body, not in finally', 'R5.3',
       [('simulator', "            self._step_impl()\n        except Exception as e:\n            print(\"Simulator step got exception: \" + str(e))\n        finally:\n            self.fire_timed(self._simulator_time,\n                            Simulator.STOP_EVENT, None)\n            self._run_state = RunState.STOPPED",
         "            self._step_impl()\n            self._run_state = RunState.STOPPED\n        except Exception as e:\n            print(\"Simulator step got exception: \" + str(e))\n            raise\n        finally:\n            self.fire_timed(self._simulator_time,\n                            Simulator.STOP_EVENT, None)")])
benign('C05', 'strategy dispatch as separate ifs',
       [('simulator', "                elif self._error_strategy == ErrorStrategy.WARN_AND_END:\n                    self.cleanup()\n                elif self._error_strategy == ErrorStrategy.WARN_AND_EXIT:", "                if self._error_strategy == ErrorStrategy.WARN_AND_END:\n                    self.cleanup()\n                if self._error_strategy == ErrorStrategy.WARN_AND_EXIT:")])
benign('C05', 'step() handler uses an f-string',
       [('simulator', "            print(\"Simulator step got exception: \" + str(e))", "            print(f\"Simulator step got exception: {e}\")")])

# =====================================================================================================  C06
seeded('C06', 'eventlist.clear() after the base initialisation', 'R6.1',
       [('simulator', "        self._eventlist.clear()\n        super().initialize(model, replication)\n", "        super().initialize(model, replication)\n        self._eventlist.clear()\n")], key='clear-order')
seeded('C06', 'clock reset after construct_model()', 'R6.1',
       [('simulator', "        self._simulator_time = replication.start_sim_time\n        model.output_statistics().clear()\n        model.construct_model()\n", "        model.output_statistics().clear()\n        model.construct_model()\n        self._simulator_time = replication.start_sim_time\n")], key='clock-reset')
seeded('C06', 'construct_model() only when no model was set before', 'R6.1',
       [('simulator', "        model.construct_model()\n", "        if self._model is None:\n            model.construct_model()\n")], key='construct_model')
seeded('C06', 'warm-up at NORMAL_PRIORITY', 'R6.1',
       [('simulator', "            self, \"warmup\", priority=SimEventInterface.MAX_PRIORITY)", "            self, \"warmup\", priority=SimEventInterface.NORMAL_PRIORITY)")], key='warmup-priority')
seeded('C06', 'output statistics no longer cleared', 'R6.2',
       [('simulator', "        model.output_statistics().clear()\n", "")])
seeded('C06', 'output statistics cleared after construct_model()', 'R6.2',
       [('simulator', "        model.output_statistics().clear()\n        model.construct_model()\n", "        model.construct_model()\n        model.output_statistics().clear()\n")])
seeded('C06', 'new run-dirty field never reset', 'R6.3',
       [('simulator', "    def _run(self):\n        self._runflag = True\n", "    def _run(self):\n        self._runflag = True\n        self._events_done = getattr(self, '_events_done', 0) + 1\n")], key='_events_done')
benign('C06', 'registry cleared through a model method',
       [('simulator', "        model.output_statistics().clear()\n", "        model.clear_output_statistics()\n"),
        ('model', "    def add_output_statistic(self, key: str, statistic: StatisticsInterface):", "    def clear_output_statistics(self):\n        self._output_statistics.clear()\n\n    def add_output_statistic(self, key: str, statistic: StatisticsInterface):")])
