"""Structural rules over statistics.py shared by C09, C10, C11 (DESIGN §3)."""
from __future__ import annotations

import ast

from .cfg import CFG
from .core import AnalysisError, NOCONST, body_of, const_value, is_self_attr, is_super_call, short, unparse, walk_shallow
from .guards import GuardEval
from .simrules import _node_containing, _nodes_containing, rbe_check

NORMAL = ('exc', 'raise', 'reraise')


def self_writes(fn):
    return {n.attr for n in walk_shallow(fn) if is_self_attr(n) and isinstance(n.ctx, ast.Store)}


def mro_methods(prog, cname, mname):
    """[(ClassInfo, fn)] of every definition of mname along the MRO of cname"""
    out = []
    for c in prog.mro(cname):
        ci = prog.classes.get(c)
        if ci is not None and mname in ci.methods:
            out.append((ci, ci.methods[mname]))
    return out


def must_effects(prog, cname, mname, _depth=0, _after=None):
    """What `obj.mname()` certainly does for an object of class cname, in order, on every normal path: a list of ('set', field, node) and
    ('fire', text, node) items.  Calls of methods of self are followed with dynamic dispatch from cname (`self.m()`), `super().m()` from
    the class after the one being read; branches contribute what both arms do; loops nothing; after a statement that may return early
    nothing more is certain."""
    r = prog.resolve(cname, mname, after=_after) if _after else prog.resolve(cname, mname)
    if not r or r[1] is None or _depth > 6:
        return []
    dci, fn = r

    def block(stmts):
        out = []
        for st in stmts:
            if isinstance(st, (ast.Assign, ast.AnnAssign)) and getattr(st, 'value', None) is not None:
                out += expr(st.value)
                for t in (st.targets if isinstance(st, ast.Assign) else [st.target]):
                    for x in ([t] if not isinstance(t, (ast.Tuple, ast.List)) else t.elts):
                        if is_self_attr(x):
                            out.append(('set', x.attr, st))
            elif isinstance(st, ast.Expr):
                v = st.value
                # `self.__dict__.pop('f', None)`: the instance attribute goes, reads fall back to the class-level default / the memoised
                # property is computed afresh
                if isinstance(v, ast.Call) and isinstance(v.func, ast.Attribute) and v.func.attr == 'pop' and unparse(v.func.value) == 'self.__dict__' and v.args \
                        and isinstance(v.args[0], ast.Constant) and isinstance(v.args[0].value, str) and len(v.args) == 2:
                    out.append(('set', v.args[0].value, st))
                else:
                    out += expr(v)
            elif isinstance(st, ast.Delete):
                for t in st.targets:
                    if is_self_attr(t):
                        out.append(('set', t.attr, st))
            elif isinstance(st, ast.For) and isinstance(st.target, ast.Name) and isinstance(st.iter, (ast.Tuple, ast.List)) and len(st.body) == 1 \
                    and isinstance(st.body[0], ast.Expr) and isinstance(st.body[0].value, ast.Call) and unparse(st.body[0].value.func) == 'self.__dict__.pop' \
                    and len(st.body[0].value.args) == 2 and unparse(st.body[0].value.args[0]) == st.target.id and not st.orelse \
                    and all(isinstance(e_, ast.Constant) and isinstance(e_.value, str) for e_ in st.iter.elts):
                # the same with the tuple of names written out (a class constant read through self is folded by the normaliser)
                out += [('set', e_.value, st) for e_ in st.iter.elts]
            elif isinstance(st, ast.For) and isinstance(st.target, ast.Name) and is_self_attr(st.iter) and len(st.body) == 1 and isinstance(st.body[0], ast.Expr) \
                    and isinstance(st.body[0].value, ast.Call) and unparse(st.body[0].value.func) == 'self.__dict__.pop' and len(st.body[0].value.args) == 2 \
                    and unparse(st.body[0].value.args[0]) == st.target.id and not st.orelse:
                # `for name in self.T: self.__dict__.pop(name, None)` with T a class-level tuple of names, read for the concrete class
                for k_ in prog.mro(cname):
                    kc_ = prog.classes.get(k_)
                    if kc_ is not None and st.iter.attr in kc_.assigns:
                        tv = kc_.assigns[st.iter.attr]
                        if isinstance(tv, (ast.Tuple, ast.List)) and all(isinstance(e_, ast.Constant) and isinstance(e_.value, str) for e_ in tv.elts):
                            out += [('set', e_.value, st) for e_ in tv.elts]
                        break
            elif isinstance(st, ast.If):
                a, b = block(st.body), block(st.orelse)
                keys_b = {(k, v) for (k, v, _n) in b}
                out += [it for it in a if (it[0], it[1]) in keys_b]
                if any(isinstance(x, ast.Return) for x in ast.walk(st)):
                    break
            elif isinstance(st, ast.Try):
                out += block(st.finalbody)
            elif isinstance(st, (ast.Return, ast.Raise)):
                if isinstance(st, ast.Return) and st.value is not None:
                    out += expr(st.value)
                break
        return out

    def expr(e):
        out = []
        for x in ast.walk(e):
            if isinstance(x, ast.Call) and isinstance(x.func, ast.Attribute):
                if isinstance(x.func.value, ast.Name) and x.func.value.id == 'self':
                    if x.func.attr in ('fire', 'fire_event', 'fire_timed', 'fire_timed_event'):
                        out.append(('fire', unparse(x.args[0] if x.func.attr in ('fire', 'fire_event') or len(x.args) < 2 else x.args[1]) if x.args else '', x))
                    else:
                        out += must_effects(prog, cname, x.func.attr, _depth + 1)
                elif is_super_call(x.func.value):
                    out += must_effects(prog, cname, x.func.attr, _depth + 1, _after=dci.name)
        return out
    return block(body_of(fn))


# --------------------------------------------------------------------------- reset completeness (R9.3 / R10.3)
def reset_completeness(ctx, rule, classes, extra_writers=('end_observations',)):
    prog = ctx.prog
    ctx.rule(rule, 'initialize() re-assigns every accumulator that register()/end_observations() writes (through the MRO)')
    for c in classes:
        prog.cls(c)
        reg, ini = set(), set()
        for (ci, fn) in mro_methods(prog, c, 'register'):
            reg |= self_writes(fn)
        for w in extra_writers:
            for (ci, fn) in mro_methods(prog, c, w):
                reg |= self_writes(fn)
        inits = mro_methods(prog, c, 'initialize')
        if not inits:
            raise AnalysisError(f'anchor vanished: {c}.initialize')
        # initialize of a subclass must chain to the base initialize for the base fields to count
        chain = [inits[0]]
        for (ci, fn) in inits[1:]:
            prev = chain[-1][1]
            calls = [x for x in walk_shallow(prev) if isinstance(x, ast.Call) and isinstance(x.func, ast.Attribute) and x.func.attr == 'initialize'
                     and (is_super_call(x.func.value) or (isinstance(x.func.value, ast.Name) and x.func.value.id in prog.classes))]
            if calls:
                chain.append((ci, fn))
            else:
                break
        for (ci, fn) in chain:
            g = CFG(fn)
            for f in self_writes(fn):
                ws = [g.node_for(st) for st in walk_shallow(fn) if isinstance(st, (ast.Assign, ast.AnnAssign))
                      and any(is_self_attr(t, f) for t in (st.targets if isinstance(st, ast.Assign) else [st.target]))]
                if ws and not g.reaches(g.entry, g.exit, avoid=ws, labels_excluded=NORMAL):
                    ini.add(f)
        # ... and whatever the methods initialize() calls on self / super certainly assign (template methods, reset hooks)
        eff = must_effects(prog, c, 'initialize')
        ini |= {f for (k, f, _n) in eff if k == 'set'}
        # a notification from inside initialize() must find the statistic completely reset: listeners may feed or query it re-entrantly
        fires = [i for i, (k, _f, _n) in enumerate(eff) if k == 'fire']
        late = [(f, n_) for i, (k, f, n_) in enumerate(eff) if k == 'set' and fires and i > fires[0] and f in reg]
        ctx.ob(rule, f'{c}:notify-after-reset', not late, sample=f'{c}.initialize(): every accumulator is reset before the first notification: {not late}')
        if late:
            f, n_ = late[0]
            ctx.finding(rule, f'{c}.initialize:notify-before-reset:{f}', prog.classes[c], n_,
                        f'{c}.initialize() fires `{eff[fires[0]][1]}` before `{f}` (and {len(late) - 1} more accumulator(s)) is reset: a listener that registers an observation '
                        f'or reads the statistic from that notification works on the state of the previous period, and what it registers is wiped afterwards',
                        where=f'{c}.initialize')
        missing = sorted(reg - ini)
        ok = not missing
        ctx.ob(rule, c, ok, sample=f'{c}: register writes {sorted(reg)}; initialize resets all: {ok}')
        for f in missing:
            ci, fn = inits[0]
            ctx.finding(rule, f'{c}.initialize:{f}', ci, fn,
                        f'accumulator {f} is written by register() but not re-assigned by initialize(): it survives re-initialisation (warm-up reset) '
                        f'and pollutes the next statistics', where=f'{c}.initialize')
    ctx.floor(rule, 'statistics classes', len(classes), 1)


# --------------------------------------------------------------------------- rejected input changes nothing (R9.2 / R10.2)
def _N_axioms():
    from .numrules import STAT_AXIOMS
    return STAT_AXIOMS


def rejected_input(ctx, rule, classes, methods=('register', 'notify')):
    ctx.rule(rule, 'rejected input changes nothing: no accumulator write and no notification on any path to a raise in register/notify')
    n = 0
    from .effects import RBE
    rbe = RBE(ctx.prog)
    reach_cache = {}

    def callee_raise_unreachable(cls, m, v):
        """a refusal inside a *called* method (reached with the caller's arguments) that the numeric abstract interpretation (E7, type-exact
        mode: isinstance tests are decided only for values known to be float / int) never reaches from this entry point with these
        arguments cannot happen after the caller's effect either"""
        if len(v.site.chain) < 2:
            return False
        key = (cls, m)
        if key not in reach_cache:
            try:
                from . import numeric as _N
                nprog = _N.Program(ctx.prog, {'statistics', 'utils'})
                an = _N.Analyser(nprog, axioms=_N_axioms(), max_depth=9, param_finite=False)       # deep enough for the constructor chains of the simulation statistics
                an.strict_types = True
                an.analyse_entry(cls, m)
                reach_cache[key] = an.reached_raises
            except Exception as e:                      # the interpreter does not cover the construct: nothing is discharged
                reach_cache[key] = None
                ctx.note(f'{rule}: reachability of callee refusals from {cls}.{m} not decided ({type(e).__name__}: {e})')
        reached = reach_cache[key]
        if reached is None:
            return False
        wc, _, wf = v.site.where.partition('.')
        return not any(r[0] == wc and r[1] == wf.split(':')[0] and r[2] == v.site.lineno for r in reached)
    for c in classes:
        ms = [m for m in methods if ctx.prog.resolve(c, m)[1] is not None]
        rbe_check(ctx, rule, c, ms, 'rejected observation has already changed the statistic', rbe=rbe, discharge=callee_raise_unreachable)
        n += len(ms)
    ctx.floor(rule, 'register/notify entry points', n, len(classes))


# --------------------------------------------------------------------------- Counter shape (R9.4)
def counter_shape(ctx):
    prog = ctx.prog
    ctx.rule('R9.4', 'Counter.register = type guard, _count += value, _n += 1 on the single accepting path; count()/n() return those fields; no other writers')
    ci = prog.cls('Counter')
    fn = prog.method('Counter', 'register', inherited=False)
    p = fn.args.args[1].arg
    b = body_of(fn)
    guards = [s for s in b if isinstance(s, ast.If) and any(isinstance(x, ast.Raise) for x in s.body)]
    augs = [s for s in b if isinstance(s, ast.AugAssign)]
    shape = {unparse(a.target): (type(a.op).__name__, unparse(a.value)) for a in augs}
    # the spelled-out form `f = f + v` of an int / float field is the same update
    for s_ in b:
        if isinstance(s_, ast.Assign) and len(s_.targets) == 1 and isinstance(s_.value, ast.BinOp) and isinstance(s_.value.op, ast.Add) \
                and unparse(s_.value.left) == unparse(s_.targets[0]):
            augs.append(s_)
            shape[unparse(s_.targets[0])] = ('Add', unparse(s_.value.right))
    cf = prog.simple_return('Counter', 'count')
    nf = prog.simple_return('Counter', 'n')
    ok = bool(guards) and f'isinstance({p}, int)' in unparse(guards[0].test) and len(augs) == 2 and len(b) == len(guards) + 2 \
        and cf is not None and nf is not None and shape.get(unparse(cf)) == ('Add', p) and shape.get(unparse(nf)) == ('Add', '1')
    ctx.ob('R9.4', 'Counter.register', ok, sample=f'Counter.register: guards {[short(g.test) for g in guards]}; updates {shape}; count() -> {unparse(cf) if cf else None}; n() -> {unparse(nf) if nf else None}')
    if not ok:
        ctx.finding('R9.4', 'Counter.register', ci, fn, 'Counter.register is not `type guard; count += value; n += 1` on the fields returned by count() and n()',
                    where='Counter.register')
    if cf is not None and nf is not None:
        fields = {cf.attr, nf.attr}
        bad = []
        for c in prog.subclasses('Counter', strict=False):
            for m, f in prog.classes[c].methods.items():
                if m in ('initialize',) or (c == 'Counter' and m == 'register'):
                    continue
                w = self_writes(f) & fields
                if w:
                    bad.append((c, m, sorted(w)))
        ctx.ob('R9.4', 'Counter:writers', not bad, sample=f'other writers of {sorted(fields)}: {bad}')
        for (c, m, w) in bad:
            ctx.finding('R9.4', f'{c}.{m}:writes-{w[0]}', prog.cls(c), prog.classes[c].methods[m], f'{c}.{m} writes the counter field(s) {w} outside register/initialize',
                        where=f'{c}.{m}')


from .pathsum import PathSum, Unsupported as _Unsupported


def _timestamp_cases(ctx, prog, ci, fn, ts, val, ACTIVE, LASTV, LASTT, START, ACT_KEY=None):
    """active x (no observation yet | ts < last | ts == last | ts > last): outcome of register(ts, val) against the specification
         ts < last                  -> refused (raise), nothing written
         not active                 -> no accumulation, start / last timestamp unchanged, last value := val
         active, no observation yet -> start := ts, last timestamp := ts, no accumulation, last value := val
         active, ts == last         -> no accumulation, last value := val
         active, ts > last          -> exactly one base register(ts - last, OLD last value), last timestamp := ts, last value := val
       `no observation yet` means start and last timestamp are both NaN; register keeps the two NaN together (checked per case)."""
    cname = 'TimestampWeightedTally'
    lt, lv, stt = f'self.{LASTT}', f'self.{LASTV}', f'self.{START}'
    wants_w = (f'{ts} - {lt}', f'max(0.0, {ts} - {lt})', f'max(0, {ts} - {lt})', f'max({ts} - {lt}, 0.0)', f'max({ts} - {lt}, 0)')
    bad = []
    ncases = 0
    for active in (True, False):
        for rel in ('nan', 'lt', 'eq', 'gt'):
            ncases += 1
            akey, apol = ACT_KEY if ACT_KEY is not None else (('bool', f'self.{ACTIVE}'), True)
            env = {akey: active == apol,
                   ('bool', f'math.isnan({lt})'): rel == 'nan', ('bool', f'math.isnan({stt})'): rel == 'nan',
                   ('bool', f'math.isnan({ts})'): False, ('bool', f'math.isnan({val})'): False,
                   ('ord', ts, lt): 'un' if rel == 'nan' else rel}
            outs = PathSum(prog, cname, fn, env).run()
            ctx.examined()
            case = f'active={active}, ' + {'nan': 'no observation yet', 'lt': 'timestamp before the last one', 'eq': 'timestamp equal to the last one', 'gt': 'timestamp after the last one'}[rel]
            if not outs:
                bad.append((case, fn, 'no path through register'))
                continue
            for o in outs:
                forks = [c for (c, b) in o.conds if isinstance(b, str)]
                if forks:
                    bad.append((case, o.node or fn, f'the outcome depends on `{forks[0][:60]}`, which the case does not decide'))
                    continue
                regs = [c for c in o.calls if isinstance(c.func, ast.Attribute) and c.func.attr == 'register']
                others = [c for c in o.calls if c not in regs]
                if rel == 'lt':
                    if o.kind != 'raise':
                        bad.append((case, o.node or fn, 'an observation with a timestamp earlier than the last one is accepted'))
                    elif o.store or o.calls:
                        bad.append((case, o.node or fn, f'the refused observation has already written {sorted(o.store)}'))
                    continue
                if o.kind == 'raise':
                    bad.append((case, o.node or fn, f'a valid observation is refused (`{o.exc[:50]}`)'))
                    continue
                if o.field(LASTV) != val:
                    bad.append((case, o.node or fn, f'the last value becomes `{o.field(LASTV)}`, not the observed value `{val}`: the next interval is weighted with a stale value'))
                want_acc = active and rel == 'gt'
                if not want_acc and regs:
                    bad.append((case, regs[0], 'the base register() is called although no interval has elapsed / the tally is not active'))
                if want_acc:
                    if len(regs) != 1:
                        bad.append((case, o.node or fn, f'{len(regs)} calls of the base register(); exactly one interval must be accumulated'))
                    else:
                        a = regs[0].args[1:] if unparse(regs[0].func.value) == 'WeightedTally' else regs[0].args
                        wt = unparse(a[0]) if a else '?'
                        vt = unparse(a[1]) if len(a) > 1 else '?'
                        if wt not in wants_w:
                            bad.append((case, regs[0], f'the interval is weighted with `{wt}`, not with the elapsed time `{ts} - {lt}`'))
                        if vt != lv:
                            bad.append((case, regs[0], f'the interval is accumulated for `{vt}`, not for the value that was valid during it (`{lv}` before this call)'))
                # timestamps
                nl = o.field(LASTT)
                ns = o.field(START)
                if active and rel == 'nan':
                    if ns != ts or nl != ts:
                        bad.append((case, o.node or fn, f'first observation: start time becomes `{ns}` and last timestamp `{nl}`; both must become `{ts}`'))
                elif active and rel == 'gt':
                    if nl != ts or ns != stt:
                        bad.append((case, o.node or fn, f'last timestamp becomes `{nl}` (required `{ts}`), start time `{ns}` (required unchanged)'))
                elif active and rel == 'eq':
                    if nl not in (ts, lt) or ns != stt:
                        bad.append((case, o.node or fn, f'last timestamp becomes `{nl}`, start time `{ns}`; required unchanged'))
                else:
                    if nl != lt or ns != stt:
                        bad.append((case, o.node or fn, f'an inactive tally changes its timestamps (last `{nl}`, start `{ns}`)'))
    ok = not bad
    ctx.exhaustive['R10.4 active x (none | before | equal | after)'] = True
    ctx.ob('R10.4', 'accumulate', ok, sample=f'register({ts}, {val}): {ncases} cases summarised path by path against the specification: mismatches {len(bad)}')
    seen = set()
    for (case, node, msg) in bad:
        key = msg.split(':')[0][:40]
        if key in seen:
            continue
        seen.add(key)
        kind = 'remember-last' if 'last value becomes' in msg else ('order-guard' if 'earlier than the last' in msg else 'accumulate')
        ctx.finding('R10.4', f'TimestampWeightedTally.register:{kind}', ci, node, f'[{case}] {msg}', where='TimestampWeightedTally.register')


def _timestamp_template(ctx, prog, ci, fn, g, ts, val, ACTIVE, LASTV, LASTT):
    # earlier-timestamp raise
    og = [i for i in walk_shallow(fn) if isinstance(i, ast.If) and any(isinstance(x, ast.Raise) for x in i.body)
          and unparse(i.test) in (f'{ts} < self.{LASTT}', f'self.{LASTT} > {ts}')]
    ok = len(og) == 1
    ctx.ob('R10.4', 'order-guard', ok, sample=f'register refuses `{short(og[0].test) if og else "?"}`')
    if not ok:
        ctx.finding('R10.4', 'TimestampWeightedTally.register:order-guard', ci, fn, 'register does not refuse a timestamp earlier than the last one', where='TimestampWeightedTally.register')
    # super().register under _active
    calls = [c for c in walk_shallow(fn) if isinstance(c, ast.Call) and isinstance(c.func, ast.Attribute) and c.func.attr == 'register'
             and (is_super_call(c.func.value) or unparse(c.func.value) == 'WeightedTally')]
    ok = len(calls) == 1
    active = False
    wexpr = None
    if ok:
        node = _node_containing(g, calls[0])
        for (cn, br) in g.guard_branches(node):
            ge = GuardEval(prog, 'TimestampWeightedTally', {('bool', f'self.{ACTIVE}'): False})
            r = ge.ev(cn.ast)
            if r is not None and r != br:
                active = True
        args = calls[0].args[1:] if unparse(calls[0].func.value) == 'WeightedTally' else calls[0].args
        w = args[0] if args else None
        if isinstance(w, ast.Name):
            asg = [a for a in walk_shallow(fn) if isinstance(a, ast.Assign) and isinstance(a.targets[0], ast.Name) and a.targets[0].id == w.id]
            w = asg[0].value if len(asg) == 1 else w
        wexpr = w
    wt = unparse(wexpr) if wexpr is not None else ''
    nonneg = wt in (f'max(0.0, {ts} - self.{LASTT})', f'max(0, {ts} - self.{LASTT})', f'max({ts} - self.{LASTT}, 0.0)',
                    f'max({ts} - self.{LASTT}, 0)')
    if not nonneg and wt == f'{ts} - self.{LASTT}' and calls:
        # allowed when dominated by ts > last
        node = _node_containing(g, calls[0])
        nonneg = any(unparse(cn.ast).find(f'{ts} > self.{LASTT}') >= 0 and br for (cn, br) in g.guard_branches(node))
    valok = bool(calls) and len(calls[0].args) >= 2 and unparse(calls[0].args[-1]) == f'self.{LASTV}'
    ok = ok and active and nonneg and valok
    ctx.ob('R10.4', 'accumulate', ok, sample=f'base register({wt}, {unparse(calls[0].args[-1]) if calls else "?"}) only while active: {active}; weight non-negative: {nonneg}')
    if not ok:
        ctx.finding('R10.4', 'TimestampWeightedTally.register:accumulate', ci, calls[0] if calls else fn,
                    f'the interval accumulation must be `super().register(max(0, t - last), last_value)` under `_active` (active-guard {active}, non-negative weight {nonneg}, '
                    f'previous value {valok})', where='TimestampWeightedTally.register')
    # last value / last timestamp updated from the parameters
    lv = [a for a in walk_shallow(fn) if isinstance(a, ast.Assign) and any(is_self_attr(t, LASTV) for t in a.targets)]
    lt = [a for a in walk_shallow(fn) if isinstance(a, ast.Assign) and any(is_self_attr(t, LASTT) for t in a.targets)]
    ok = len(lv) == 1 and unparse(lv[0].value) == val and bool(lt) and all(unparse(a.value) == ts for a in lt) \
        and not g.reaches(g.entry, g.exit, avoid=_nodes_containing(g, lv[0]), labels_excluded=NORMAL)
    ctx.ob('R10.4', 'remember-last', ok, sample=f'_last_value := {[unparse(a.value) for a in lv]} on every accepted path; _last_timestamp := {[unparse(a.value) for a in lt]}')
    if not ok:
        ctx.finding('R10.4', 'TimestampWeightedTally.register:remember-last', ci, fn, 'register does not store the new value / timestamp as the last observation on every accepted path',
                    where='TimestampWeightedTally.register')


# --------------------------------------------------------------------------- timestamp protocol (R10.4)
def timestamp_protocol(ctx):
    prog = ctx.prog
    ctx.rule('R10.4', 'TimestampWeightedTally.register: order guard precedes all writes; accumulation only while active; weight = max(0, t - last); end_observations registers then deactivates')
    ci = prog.cls('TimestampWeightedTally')
    fn = prog.method('TimestampWeightedTally', 'register', inherited=False)
    ts, val = fn.args.args[1].arg, fn.args.args[2].arg
    g = CFG(fn)
    # the fields are found through their getters / their role, not by name (a renamed private field is the same protocol)
    def _getter_field(m, default):
        e = prog.simple_return('TimestampWeightedTally', m)
        return e.attr if isinstance(e, ast.Attribute) and unparse(e.value) == 'self' else default
    ACTIVE = _getter_field('isactive', '_active')
    # `isactive()` may also be a test of the field (`return self._end is None`): the case environments then decide that test
    ACT_EXPR = prog.simple_return('TimestampWeightedTally', 'isactive')
    ACT_KEY = None                 # (env key, polarity): env[key] = active == polarity
    if isinstance(ACT_EXPR, ast.Compare) and len(ACT_EXPR.ops) == 1 and isinstance(ACT_EXPR.comparators[0], ast.Constant) and ACT_EXPR.comparators[0].value is None \
            and is_self_attr(ACT_EXPR.left) and isinstance(ACT_EXPR.ops[0], (ast.Is, ast.IsNot, ast.Eq, ast.NotEq)):
        ACTIVE = ACT_EXPR.left.attr
        ACT_KEY = (('isnone', f'self.{ACTIVE}'), isinstance(ACT_EXPR.ops[0], (ast.Is, ast.Eq)))
    elif isinstance(ACT_EXPR, ast.UnaryOp) and isinstance(ACT_EXPR.op, ast.Not) and is_self_attr(ACT_EXPR.operand):
        ACTIVE = ACT_EXPR.operand.attr
        ACT_KEY = (('bool', f'self.{ACTIVE}'), False)
    LASTV = _getter_field('last_value', '_last_value')
    LASTT = '_last_timestamp'
    for i_ in walk_shallow(fn):
        if isinstance(i_, ast.If) and any(isinstance(x, ast.Raise) for x in i_.body) and isinstance(i_.test, ast.Compare) and len(i_.test.ops) == 1:
            l_, r_ = i_.test.left, i_.test.comparators[0]
            if isinstance(i_.test.ops[0], ast.Lt) and unparse(l_) == ts and is_self_attr(r_):
                LASTT = r_.attr
            elif isinstance(i_.test.ops[0], ast.Gt) and unparse(r_) == ts and is_self_attr(l_):
                LASTT = l_.attr
    # ---- what register does, case by case (E10 path summaries): independent of statement order, helper locals and early returns
    START = '_start_time'
    for x_ in walk_shallow(fn):
        if isinstance(x_, ast.Call) and unparse(x_.func) == 'math.isnan' and len(x_.args) == 1 and is_self_attr(x_.args[0]) and x_.args[0].attr != LASTT:
            START = x_.args[0].attr
    try:
        _timestamp_cases(ctx, prog, ci, fn, ts, val, ACTIVE, LASTV, LASTT, START, ACT_KEY)
    except _Unsupported as e_:
        ctx.note(f'R10.4: path summaries not applicable to register ({e_}); template rule used instead')
        _timestamp_template(ctx, prog, ci, fn, g, ts, val, ACTIVE, LASTV, LASTT)
    # end_observations
    eo = prog.method('TimestampWeightedTally', 'end_observations', inherited=False)
    p = eo.args.args[1].arg
    b = body_of(eo)
    ok = len(b) == 2 and unparse(b[0]) == f'self.register({p}, self.{LASTV})' and unparse(b[1]) == f'self.{ACTIVE} = False'
    if not ok and len(b) == 2 and unparse(b[0]) == f'self.register({p}, self.{LASTV})' and ACT_EXPR is not None and isinstance(b[1], ast.Assign) \
            and len(b[1].targets) == 1 and is_self_attr(b[1].targets[0], ACTIVE):
        # the second statement makes isactive() false: its test evaluated with the assigned value (a timestamp accepted by register is a number)
        class _R(ast.NodeTransformer):
            def visit_Attribute(self, n):
                return copy.deepcopy(b[1].value) if is_self_attr(n, ACTIVE) else n
        import copy
        t_ = _R().visit(copy.deepcopy(ACT_EXPR))
        ok = GuardEval(prog, 'TimestampWeightedTally', {('isnone', p): False}).ev(t_) is False
    ctx.ob('R10.4', 'end_observations', ok, sample=f'end_observations: {[short(s) for s in b]}')
    if not ok:
        ctx.finding('R10.4', 'TimestampWeightedTally.end_observations', ci, eo, 'end_observations must be `self.register(t, last_value)` followed by `_active = False`',
                    where='TimestampWeightedTally.end_observations')
    # initialize chains to the base and resets the timestamp state
    r_ini = prog.resolve('TimestampWeightedTally', 'initialize')
    if not r_ini or r_ini[1] is None:
        raise AnalysisError('anchor vanished: method TimestampWeightedTally.initialize')
    ini = r_ini[1]
    base_reg = set()
    for (ci2, f2) in mro_methods(prog, 'WeightedTally', 'register'):
        base_reg |= self_writes(f2)
    eff_ = {f for (k, f, _n) in must_effects(prog, 'TimestampWeightedTally', 'initialize') if k == 'set'}
    chained = base_reg <= eff_ or any(isinstance(c, ast.Call) and isinstance(c.func, ast.Attribute) and c.func.attr == 'initialize' and is_super_call(c.func.value)
                                      for c in walk_shallow(ini))
    ctx.ob('R10.4', 'initialize-chain', chained)
    if not chained:
        ctx.finding('R10.4', 'TimestampWeightedTally.initialize:super', ci, ini, 'initialize does not call super().initialize(): the weighted accumulators are not reset',
                    where='TimestampWeightedTally.initialize')


# --------------------------------------------------------------------------- R11.x
SIM_STATS = ('SimCounter', 'SimTally', 'SimWeightedTally', 'SimPersistent')


def sim_stat_classes(prog):
    cs = [c for c in prog.classes if 'SimStatisticsInterface' in prog.mro(c) and c != 'SimStatisticsInterface']
    return sorted(cs)


def r111_subscriptions(ctx):
    prog = ctx.prog
    ctx.rule('R11.1', 'every simulation statistic subscribes itself to WARMUP_EVENT (persistent: also END_REPLICATION_EVENT) on every normal constructor path; _simulator is set before the base constructor runs')
    cs = sim_stat_classes(prog)
    ctx.floor('R11.1', 'simulation statistics classes', len(cs), 4)
    for c in cs:
        ci = prog.cls(c)
        fn = prog.method(c, '__init__', inherited=False)
        g = CFG(fn)
        sim = fn.args.args[3].arg if len(fn.args.args) > 3 else 'simulator'
        need = ['WARMUP_EVENT'] + (['END_REPLICATION_EVENT'] if prog.is_subclass(c, 'TimestampWeightedTally') else [])
        for ev in need:
            subs = [x for x in walk_shallow(fn) if isinstance(x, ast.Call) and isinstance(x.func, ast.Attribute) and x.func.attr == 'add_listener'
                    and unparse(x.func.value) in (sim, 'self._simulator', 'self.simulator') and len(x.args) == 2
                    and isinstance(x.args[0], ast.Attribute) and x.args[0].attr == ev and unparse(x.args[1]) == 'self']
            ok = bool(subs) and not g.reaches(g.entry, g.exit, avoid=[n for s in subs for n in _nodes_containing(g, s)], labels_excluded=NORMAL)
            ctx.ob('R11.1', f'{c}:{ev}', ok, sample=f'{c}.__init__: {short(subs[0]) if subs else "no subscription to " + ev}')
            if not ok:
                ctx.finding('R11.1', f'{c}.__init__:{ev}', ci, fn,
                            f'{c} does not subscribe itself to {ev} on every constructor path: '
                            + ('observations made before the warm-up time are never discarded' if ev == 'WARMUP_EVENT' else 'the persistent statistic is never closed at the replication end'),
                            where=f'{c}.__init__')
        # init-before-use
        asg = [s for s in walk_shallow(fn) if isinstance(s, ast.Assign) and any(is_self_attr(t, '_simulator') for t in s.targets)]
        base = [x for x in walk_shallow(fn) if isinstance(x, ast.Call) and isinstance(x.func, ast.Attribute) and x.func.attr == '__init__']
        ok = bool(asg) and bool(base) and all(g.dominates(g.node_for(asg[0]), _node_containing(g, b)) for b in base) and unparse(asg[0].value) == sim
        ctx.ob('R11.1', f'{c}:init-before-use', ok, sample=f'{c}.__init__: self._simulator assigned before {[short(b, 40) for b in base]}: {ok}')
        if not ok:
            ctx.finding('R11.1', f'{c}.__init__:_simulator-before-base', ci, fn,
                        'self._simulator must be assigned before the base constructor, whose initialize() fires an event that reads it', where=f'{c}.__init__')


def r112_notify_dispatch(ctx):
    prog = ctx.prog
    ctx.rule('R11.2', 'notify dispatch of simulation statistics: data event -> base notify with the same content; WARMUP -> initialize(); END_REPLICATION -> end_observations(clock)')
    native = {}
    for c in sim_stat_classes(prog):
        ci = prog.cls(c)
        fn = prog.method(c, 'notify', inherited=False)
        ev = fn.args.args[1].arg
        persistent = prog.is_subclass(c, 'TimestampWeightedTally')
        cases = {'data': 'forward', 'warmup': 'initialize', 'other': 'nothing'}
        if persistent:
            cases['end'] = 'end_observations'
            cases['native'] = 'forward-native'
        # the statistic's own data event is a member of the accepted set from construction on when the constructor puts it there and nothing in
        # the class ever takes a member out: then a native event also passes the membership test
        native_member = False
        if persistent:
            init_ = prog.method(c, '__init__', inherited=False)
            sets_ = [a for a in walk_shallow(init_) if isinstance(a, (ast.Assign, ast.AnnAssign)) and getattr(a, 'value', None) is not None
                     and any(is_self_attr(t, '_event_types') for t in (a.targets if isinstance(a, ast.Assign) else [a.target]))]
            shrinks = any(isinstance(x, ast.Call) and isinstance(x.func, ast.Attribute) and is_self_attr(x.func.value, '_event_types')
                          and x.func.attr in ('remove', 'discard', 'clear', 'pop', 'difference_update', 'intersection_update', 'symmetric_difference_update')
                          or isinstance(x, ast.AugAssign) and is_self_attr(x.target, '_event_types') and not isinstance(x.op, ast.BitOr)
                          for k_ in prog.mro(c) if k_ in prog.classes for m_ in prog.classes[k_].methods.values() for x in ast.walk(m_))
            rebinds = sum(1 for k_ in prog.mro(c) if k_ in prog.classes for m_ in prog.classes[k_].methods.values() for x in ast.walk(m_)
                          if isinstance(x, ast.Attribute) and isinstance(x.ctx, ast.Store) and x.attr == '_event_types' and is_self_attr(x))
            v0 = sets_[-1].value if sets_ else None
            if isinstance(v0, ast.Call) and isinstance(v0.func, ast.Name) and v0.func.id in ('set', 'frozenset') and len(v0.args) == 1 and isinstance(v0.args[0], ast.Attribute) \
                    and unparse(v0.args[0].value) in ('self', 'cls', 'type(self)', c):
                for k_ in prog.mro(c):
                    kc_ = prog.classes.get(k_)
                    if kc_ is not None and v0.args[0].attr in kc_.assigns:
                        v0 = kc_.assigns[v0.args[0].attr]
                        break
            native_member = isinstance(v0, ast.Set) and 'StatEvents.TIMESTAMP_DATA_EVENT' in [unparse(e_) for e_ in v0.elts] \
                and not shrinks and rebinds == len(sets_)
        for case, expected in cases.items():
            env = {('bool', f'{ev}.event_type in self._event_types'): case == 'data' or (case == 'native' and native_member),
                   ('ord', f'{ev}.event_type', 'ReplicationInterface.WARMUP_EVENT'): 'eq' if case == 'warmup' else 'lt',
                   ('ord', f'{ev}.event_type', 'ReplicationInterface.END_REPLICATION_EVENT'): 'eq' if case == 'end' else 'lt',
                   ('ord', f'{ev}.event_type', 'StatEvents.TIMESTAMP_DATA_EVENT'): 'eq' if case == 'native' else 'lt'}
            ge = GuardEval(prog, c, env)
            acts = []

            local = {}          # local name -> the expression it stands for (over the parameter as it came in)

            def subst(e):
                from .effects import Subst as _Subst
                import copy as _copy
                return ast.fix_missing_locations(_Subst(local).visit(_copy.deepcopy(e))) if local else e

            def walk(stmts):
                """collects the actions of the path chosen by the event class; True when the path has returned"""
                for s in stmts:
                    if isinstance(s, ast.If):
                        v = ge.ev(subst(s.test))
                        if v is None:
                            acts.append('undetermined:' + short(s.test, 40))
                        elif walk(s.body if v else s.orelse):
                            return True
                    elif isinstance(s, ast.Assign) and len(s.targets) == 1 and isinstance(s.targets[0], ast.Name) and not any(
                            isinstance(x, ast.Call) and not (isinstance(x.func, ast.Name) and x.func.id in ('Event', 'TimedEvent')) for x in ast.walk(s.value)):
                        # a local for part of the event, or the event re-wrapped: followed by substitution
                        local[s.targets[0].id] = subst(s.value)
                    elif isinstance(s, ast.Expr) and isinstance(s.value, ast.Call):
                        acts.append(subst(s.value))
                    elif isinstance(s, ast.Pass):
                        pass
                    elif isinstance(s, ast.Return) and (s.value is None or (isinstance(s.value, ast.Constant) and s.value.value is None)):
                        return True                     # early return instead of elif
                    else:
                        acts.append('stmt:' + short(s, 40))
                return False
            walk(body_of(fn))
            ctx.examined()
            ok = False
            desc = [short(a, 70) if not isinstance(a, str) else a for a in acts]
            if expected == 'nothing':
                ok = not acts
            elif len(acts) == 1 and not isinstance(acts[0], str):
                a = acts[0]
                t = unparse(a)
                if expected == 'initialize':
                    ok = t == 'self.initialize()'
                elif expected == 'end_observations':
                    ok = t in ('self.end_observations(self.simulator.simulator_time)', 'self.end_observations(self._simulator.simulator_time)')
                elif expected == 'forward-native':
                    ok = t == f'super().notify({ev})'
                elif expected == 'forward':
                    if isinstance(a.func, ast.Attribute) and a.func.attr == 'notify' and is_super_call(a.func.value) and len(a.args) == 1 and isinstance(a.args[0], ast.Call):
                        inner = a.args[0]
                        cls = unparse(inner.func)
                        args = [unparse(x) for x in inner.args]
                        if not persistent:
                            ok = cls == 'Event' and len(args) == 2 and args[1] == f'{ev}.content' and args[0].startswith('StatEvents.')
                            if ok:
                                native[c] = args[0]
                        else:
                            if len(args) == 3:
                                native[c] = args[1]
                            ok = cls == 'TimedEvent' and len(args) == 3 and args[2] == f'{ev}.content' and args[1] == 'StatEvents.TIMESTAMP_DATA_EVENT' \
                                and args[0] in ('self.simulator.simulator_time', 'self._simulator.simulator_time')
            ctx.ob('R11.2', f'{c}.notify:{case}', ok, sample=f'{c}.notify({case} event) -> {desc}')
            if not ok:
                ctx.finding('R11.2', f'{c}.notify:{case}', ci, fn, f'{c}.notify on a {case} event performs {desc}; expected: {expected}', where=f'{c}.notify')
        ctx.exhaustive[f'R11.2 {c}.notify event classes'] = True
        # the event type accepted without listen_to() is the statistic's own data event: the one notify() forwards observations as
        init = prog.method(c, '__init__', inherited=False)
        sets = [a for a in walk_shallow(init) if isinstance(a, (ast.Assign, ast.AnnAssign)) and getattr(a, 'value', None) is not None
                and any(is_self_attr(t, '_event_types') for t in (a.targets if isinstance(a, ast.Assign) else [a.target]))]
        if sets and c in native:
            v = sets[-1].value
            # `set(self.NAME)` / `self.NAME.copy()` / `set(Cls.NAME)` with NAME a class-level set display: its members
            inner = None
            if isinstance(v, ast.Call) and isinstance(v.func, ast.Name) and v.func.id in ('set', 'frozenset') and len(v.args) == 1 and isinstance(v.args[0], ast.Attribute):
                inner = v.args[0]
            elif isinstance(v, ast.Call) and isinstance(v.func, ast.Attribute) and v.func.attr == 'copy' and not v.args and isinstance(v.func.value, ast.Attribute):
                inner = v.func.value
            elif isinstance(v, ast.Attribute):
                inner = v                       # the class-level set itself (that it is shared is another rule's finding)
            if inner is not None and unparse(inner.value) in ('self', 'cls', 'type(self)', c):
                for k_ in prog.mro(c):
                    kc_ = prog.classes.get(k_)
                    if kc_ is not None and inner.attr in kc_.assigns:
                        if isinstance(kc_.assigns[inner.attr], ast.Set):
                            v = kc_.assigns[inner.attr]
                        break
            got = [unparse(x) for x in v.elts] if isinstance(v, ast.Set) else None
            ok = got == [native[c]]
            ctx.ob('R11.2', f'{c}.__init__:accepted-type', ok, sample=f'{c} accepts {got} without listen_to; forwards observations as {native[c]}')
            if not ok:
                ctx.finding('R11.2', f'{c}.__init__:accepted-type', ci, sets[-1],
                            f'{c} accepts events of type {got} before any listen_to() call, but its data events are {native[c]} (the type notify() forwards them as): '
                            f'observations sent to it by a plain subscription are silently dropped, and the statistic reports nothing at the replication end',
                            where=f'{c}.__init__')


def r113_model_registration(ctx):
    prog = ctx.prog
    ctx.rule('R11.3', 'statistics register themselves in the model under their key whenever the simulator has a model; the model returns the stored object for the key')
    for c in sim_stat_classes(prog):
        ci = prog.cls(c)
        fn = prog.method(c, '__init__', inherited=False)
        g = CFG(fn)
        key = fn.args.args[1].arg
        sim = fn.args.args[3].arg
        regs = [x for x in walk_shallow(fn) if isinstance(x, ast.Call) and isinstance(x.func, ast.Attribute) and x.func.attr == 'add_output_statistic'
                and [unparse(a) for a in x.args] == [key, 'self']]
        ok = False
        if regs:
            node = _node_containing(g, regs[0])
            from .simrules import raise_guards_before
            rg = {id(c) for (c, _b) in raise_guards_before(g, node)}
            conds = [(unparse(cn.ast), br) for (cn, br) in g.guard_branches(node) if id(cn.ast) not in rg]
            only_model_guard = all(('model' in t and ('!= None' in t or 'is not None' in t) and br) for (t, br) in conds)
            ok = only_model_guard and unparse(regs[0].func.value) in (f'{sim}.model', 'self._simulator.model', 'self.simulator.model')
        ctx.ob('R11.3', f'{c}.__init__', ok, sample=f'{c}.__init__: {short(regs[0]) if regs else "no registration"}')
        if not ok:
            ctx.finding('R11.3', f'{c}.__init__:add_output_statistic', ci, fn, f'{c} does not register itself with `simulator.model.add_output_statistic({key}, self)` whenever a model exists',
                        where=f'{c}.__init__')
    ci = prog.cls('DSOLModel')
    add = prog.method('DSOLModel', 'add_output_statistic', inherited=False)
    k, s = add.args.args[1].arg, add.args.args[2].arg
    stores = [x for x in walk_shallow(add) if isinstance(x, ast.Assign) and isinstance(x.targets[0], ast.Subscript) and is_self_attr(x.targets[0].value)]
    get = prog.method('DSOLModel', 'get_output_statistic', inherited=False)
    gk = get.args.args[1].arg
    r = [x for x in walk_shallow(get) if isinstance(x, ast.Return)]
    ok = len(stores) == 1 and unparse(stores[0].targets[0].slice) == k and unparse(stores[0].value) == s and len(r) == 1 \
        and unparse(r[0].value) in (f'self.{stores[0].targets[0].value.attr}[{gk}]', f'self.{stores[0].targets[0].value.attr}.get({gk})')
    # the registry is per model instance: created in __init__, not a class-level (shared) dict
    if stores:
        F = stores[0].targets[0].value.attr
        init = prog.method('DSOLModel', '__init__', inherited=False)
        fresh = any(isinstance(x, (ast.Assign, ast.AnnAssign)) and any(is_self_attr(t, F) for t in (x.targets if isinstance(x, ast.Assign) else [x.target]))
                    and isinstance(x.value, (ast.Dict, ast.Call)) for x in walk_shallow(init))
        shared = F in ci.assigns
        okp = fresh and not shared
        ctx.ob('R11.3', 'DSOLModel:registry-per-instance', okp, sample=f'DSOLModel.{F}: fresh dict per instance in __init__ {fresh}; class-level attribute {shared}')
        if not okp:
            ctx.finding('R11.3', f'DSOLModel.{F}:shared', ci, ci.assigns.get(F) or init,
                        f'the statistics registry {F} is not a fresh dict per model instance (class-level: {shared}): two models in one process share it, and initialising one '
                        f'wipes or replaces what the other returns under a key', where='DSOLModel')
    ctx.ob('R11.3', 'DSOLModel:add/get', ok, sample=f'add: {short(stores[0]) if stores else "?"}; get: {short(r[0].value) if r else "?"}')
    if not ok:
        ctx.finding('R11.3', 'DSOLModel.get_output_statistic', ci, get, 'get_output_statistic(key) does not return the object stored by add_output_statistic(key, statistic)',
                    where='DSOLModel.get_output_statistic')


EVENT_GETTER = {'STDEV': 'stdev', 'VARIANCE': 'variance', 'SKEWNESS': 'skewness', 'KURTOSIS': 'kurtosis', 'EXCESS_K': 'excess_kurtosis',
                'N': 'n', 'MIN': 'min', 'MAX': 'max', 'SUM': 'sum', 'MEAN': 'mean', 'COUNT': 'count'}


def expected_getter(evname):
    ev = evname[:-len('_EVENT')] if evname.endswith('_EVENT') else evname
    if ev == 'OBSERVATION_ADDED':
        return 'value'
    w = ev.startswith('WEIGHTED_')
    if w:
        ev = ev[len('WEIGHTED_'):]
    arg = None
    if ev.startswith('POPULATION_'):
        ev = ev[len('POPULATION_'):]
        arg = ('', 'True')
    elif ev.startswith('SAMPLE_'):
        ev = ev[len('SAMPLE_'):]
        arg = ('False',)
    g = EVENT_GETTER.get(ev)
    if g is None:
        return None
    if w and g in ('sum', 'mean', 'stdev', 'variance'):
        g = 'weighted_' + g
    return (g, arg)


def r115_published_values(ctx):
    prog = ctx.prog
    ctx.rule('R11.5', 'published value = getter: every _fire_events row (event type, payload) matches the getter its name denotes; event-based and simulation variants publish the same sequence; timestamps are the clock / the observation time')
    rows = 0
    seqs = {}
    for c, ci in prog.classes.items():
        fn = ci.methods.get('_fire_events')
        if fn is None or 'StatisticsInterface' not in prog.mro(c):
            continue
        val = fn.args.args[-1].arg
        seq = []
        tvars = {a.targets[0].id: unparse(a.value) for a in walk_shallow(fn) if isinstance(a, ast.Assign) and isinstance(a.targets[0], ast.Name)}
        for s in body_of(fn):
            for x in walk_shallow(s):
                if not (isinstance(x, ast.Call) and isinstance(x.func, ast.Attribute) and x.func.attr in ('fire', 'fire_timed') and is_self_attr(x.func)):
                    continue
                timed = x.func.attr == 'fire_timed'
                a = x.args[1:] if timed else x.args
                if len(a) < 2 or not isinstance(a[0], ast.Attribute):
                    continue
                rows += 1
                evn, payload = a[0].attr, a[1]
                exp = expected_getter(evn)
                if exp is None:
                    ok = False
                    why = f'unknown statistic event {evn}'
                elif exp == 'value':
                    ok = unparse(payload) == val
                    why = f'payload must be the registered value `{val}`'
                else:
                    ok = isinstance(payload, ast.Call) and unparse(payload.func) == 'self.' + exp[0] and \
                        (unparse(payload.args[0]) if payload.args else '') in (exp[1] if exp[1] else ('',))
                    why = f'payload must be self.{exp[0]}({"/".join(exp[1]) if exp[1] else ""})'
                if timed:
                    ts = unparse(x.args[0])
                    ts = tvars.get(ts, ts)
                    sim = 'SimStatisticsInterface' in prog.mro(c)
                    tok = ts in ('self.simulator.simulator_time', 'self._simulator.simulator_time') if sim else ts == fn.args.args[1].arg
                    if not tok:
                        ok = False
                        why = f'timestamp `{ts}` is not the ' + ('simulator clock' if sim else 'observation timestamp')
                ctx.ob('R11.5', f'{c}:{evn}', ok, sample=f'{c}: {evn} <- {short(payload, 40)}')
                if not ok:
                    ctx.finding('R11.5', f'{c}._fire_events:{evn}', ci, x, f'{c} publishes `{short(payload, 50)}` under {evn}: {why}', where=f'{c}._fire_events')
                seq.append((evn, unparse(payload)))
        seqs[c] = seq
    ctx.floor('R11.5', 'published rows', rows, 60)
    for c in sim_stat_classes(prog):
        base = [b for b in prog.mro(c)[1:] if b in seqs]
        if not base or c not in seqs:
            continue
        b = base[0]
        ok = seqs[c] == seqs[b]
        ctx.ob('R11.5', f'{c}~{b}', ok, sample=f'{c} and {b} publish the same {len(seqs[c])}-row sequence: {ok}')
        if not ok:
            diff = [x for x in seqs[b] if x not in seqs[c]] + [x for x in seqs[c] if x not in seqs[b]]
            ctx.finding('R11.5', f'{c}._fire_events~{b}', prog.cls(c), prog.classes[c].methods['_fire_events'],
                        f'{c} and its event-based sibling {b} publish different sequences (differences: {diff[:3]})', where=f'{c}._fire_events')
    ctx.exhaustive['R11.5 all published rows'] = True


def coercion_before_write(ctx, rule, classes):
    """an observation that cannot be converted to float (an int beyond float range) makes the first float operation raise
    OverflowError; that operation must come before the first write, else the refused observation has already changed the statistic"""
    prog = ctx.prog
    ctx.rule(rule, 'the first float conversion of every numeric observation parameter (math.isnan(x), float(x), x -/+/* float) dominates every write in register()')
    n = 0
    for c in classes:
        ci = prog.cls(c)
        fn = ci.methods.get('register')
        if fn is None:
            continue
        g = CFG(fn)
        params = [a.arg for a in fn.args.args[1:]]
        writes = [nd for nd in g.stmt_nodes() if nd.ast is not None and any(is_self_attr(x) and isinstance(x.ctx, (ast.Store, ast.Del)) for x in walk_shallow(nd.ast))]
        for p in params:
            coer = []
            for nd in g.stmt_nodes():
                if nd.ast is None:
                    continue
                for x in walk_shallow(nd.ast):
                    if isinstance(x, ast.Call) and unparse(x.func) in ('math.isnan', 'math.isinf', 'math.isfinite', 'float', 'math.sqrt', 'math.floor') \
                            and x.args and isinstance(x.args[0], ast.Name) and x.args[0].id == p:
                        coer.append(nd)
                    elif isinstance(x, ast.BinOp) and isinstance(x.op, (ast.Add, ast.Sub, ast.Mult, ast.Div)) \
                            and any(isinstance(o, ast.Name) and o.id == p for o in (x.left, x.right)):
                        coer.append(nd)
            if not coer:
                continue
            n += 1
            late = [w for w in writes if not any(g.dominates(cn, w) and cn is not w for cn in coer)]
            ok = not late
            ctx.ob(rule, f'{c}.register:{p}', ok, sample=f'{c}.register: `{p}` is converted to float before the first write: {ok}')
            if not ok:
                ctx.finding(rule, f'{c}.register:{p}:write-before-float-conversion', ci, late[0].ast,
                            f'`{short(late[0].ast, 60)}` is executed before `{p}` has been through any float operation: an int observation beyond float range '
                            f'(10**400) passes the type and NaN checks and raises OverflowError only later, after the statistic has been changed', where=f'{c}.register')
    ctx.floor(rule, 'numeric observation parameters', n, 1)


# --------------------------------------------------------------------------- class-level mutable state shared by all instances
MUTATORS = ('append', 'extend', 'insert', 'remove', 'pop', 'clear', 'update', 'setdefault', 'add', 'discard', 'popitem', 'sort', 'reverse', 'appendleft')


HEAPQ_MUTATORS = {'heapq.heappush', 'heapq.heappop', 'heapq.heapify', 'heapq.heapreplace', 'heapq.heappushpop', 'bisect.insort', 'bisect.insort_left', 'bisect.insort_right'}


def instance_mutation_sites(prog, cname, name):
    """(subclass, method, node) of in-place changes of the attribute `name` through self / cls / type(self) in cname and its subclasses"""
    muts = []
    for sub in prog.subclasses(cname, strict=False):
        sci = prog.classes[sub]
        for mname, fn in list(sci.methods.items()) + list(sci.setters.items()):
            for x in walk_shallow(fn):
                base = None
                if isinstance(x, ast.Subscript) and isinstance(x.ctx, (ast.Store, ast.Del)) and isinstance(x.value, ast.Attribute) and x.value.attr == name:
                    base = x.value.value
                elif isinstance(x, ast.Call) and isinstance(x.func, ast.Attribute) and x.func.attr in MUTATORS \
                        and isinstance(x.func.value, ast.Attribute) and x.func.value.attr == name:
                    base = x.func.value.value
                elif isinstance(x, ast.AugAssign) and isinstance(x.target, ast.Attribute) and x.target.attr == name:
                    base = x.target.value
                elif isinstance(x, ast.Call) and unparse(x.func) in HEAPQ_MUTATORS and x.args and isinstance(x.args[0], ast.Attribute) \
                        and x.args[0].attr == name:
                    base = x.args[0].value
                elif isinstance(x, ast.Attribute) and isinstance(x.ctx, (ast.Store, ast.Del)) and isinstance(x.value, ast.Attribute) and x.value.attr == name:
                    base = x.value.value              # self.<name>.<field> = ...: the object kept under <name> is changed in place
                elif isinstance(x, ast.Call) and isinstance(x.func, ast.Attribute) and isinstance(x.func.value, ast.Attribute) and x.func.value.attr == name \
                        and x.func.attr in _writer_methods(prog):
                    base = x.func.value.value         # self.<name>.set(...): a method that assigns fields of its object
                if base is not None and unparse(base) in ('self', 'cls', 'type(self)', 'self.__class__'):
                    muts.append((sub, mname, x))
    return muts


def _writer_methods(prog):
    """names of methods (other than constructors) that assign a field of their own object"""
    cached = getattr(prog, '_pdsa_writer_methods', None)
    if cached is None:
        cached = set()
        for ci in prog.classes.values():
            for mname, fn in ci.methods.items():
                if mname in ('__init__', '__new__'):
                    continue
                if any(isinstance(x, ast.Attribute) and isinstance(x.ctx, (ast.Store, ast.Del)) and isinstance(x.value, ast.Name) and x.value.id == 'self'
                       for x in walk_shallow(fn)):
                    cached.add(mname)
        prog._pdsa_writer_methods = cached
    return cached


def shared_class_state(ctx, rule, class_names, consequence):
    """A container created once in the class body and changed through instances is one object for all instances (and
    all subclasses): what one instance stores, every other instance sees.  Flags class-level containers that some
    method mutates through `self` / `cls` / `type(self)` unless every constructor path re-binds the name per instance."""
    prog = ctx.prog
    ctx.rule(rule, 'no container created in a class body is mutated through instances (per-instance state is bound in the constructor)')
    n = 0
    for cname in class_names:
        ci = prog.classes.get(cname)
        if ci is None:
            continue
        for (name, value, stmt) in ci.all_assigns:
            mutable = isinstance(value, (ast.Dict, ast.List, ast.Set, ast.DictComp, ast.ListComp, ast.SetComp)) or \
                (isinstance(value, ast.Call) and unparse(value.func).split('.')[-1] in ('dict', 'list', 'set', 'defaultdict', 'OrderedDict', 'deque', 'Counter')) or \
                (isinstance(value, ast.Call) and isinstance(value.func, ast.Name) and value.func.id in prog.classes)        # an object of a program class
            if not mutable:
                continue
            n += 1
            muts = instance_mutation_sites(prog, cname, name)
            rebinds_in_init = False
            for sub in prog.subclasses(cname, strict=False):
                sci = prog.classes[sub]
                for mname, fn in list(sci.methods.items()) + list(sci.setters.items()):
                    if mname == '__init__' and sub == cname:
                        stores = [a for a in body_of(fn) if isinstance(a, (ast.Assign, ast.AnnAssign)) and
                                  any(is_self_attr(t, name) for t in (a.targets if isinstance(a, ast.Assign) else [a.target]))]
                        rebinds_in_init = bool(stores)            # top-level statement of the constructor: on every normal path
            # a field bound to the class-level container itself (`self.f = self.NAME`, no copy) is another name for it
            for sub in prog.subclasses(cname, strict=False):
                sci = prog.classes[sub]
                for mname, fn in list(sci.methods.items()) + list(sci.setters.items()):
                    for a in walk_shallow(fn):
                        if not isinstance(a, (ast.Assign, ast.AnnAssign)) or getattr(a, 'value', None) is None:
                            continue
                        v = a.value
                        if isinstance(v, ast.Attribute) and v.attr == name and unparse(v.value) in ('self', 'cls', 'type(self)', 'self.__class__', cname, sub):
                            for t in (a.targets if isinstance(a, ast.Assign) else [a.target]):
                                if is_self_attr(t) and t.attr != name:
                                    am = instance_mutation_sites(prog, cname, t.attr)
                                    ctx.ob(rule, f'{cname}.{name}:alias:{t.attr}', not am,
                                           sample=f'{sub}.{mname}: self.{t.attr} is bound to the class-level {name} itself; mutated through instances at {len(am)} site(s)')
                                    if am:
                                        s2, m2, x2 = am[0]
                                        ctx.finding(rule, f'{cname}.{name}:shared-through-{t.attr}', sci, a,
                                                    f'`self.{t.attr}` is bound to the class-level container `{name}` itself (no copy) in {sub}.{mname} and changed in place '
                                                    f'(`{short(x2, 50)}` in {s2}.{m2}): all {cname} objects (and the class) share it, so {consequence}', where=f'{sub}.{mname}')
            ok = not muts or rebinds_in_init
            ctx.ob(rule, f'{cname}.{name}', ok, sample=f'{cname}.{name} = {short(value, 30)} (class body): mutated through instances at {len(muts)} site(s); re-bound per instance in __init__: {rebinds_in_init}')
            if not ok:
                sub, mname, x = muts[0]
                ctx.finding(rule, f'{cname}.{name}:shared', ci, stmt,
                            f'`{name}` is created once in the class body and mutated through instances (`{short(x, 50)}` in {sub}.{mname}): all {cname} objects share it, so {consequence}',
                            where=cname)
    # ---- module-level objects handed to instances: `self.f = _DEFAULT` followed by in-place changes through self.f
    m = 0
    for cname in class_names:
        ci = prog.classes.get(cname)
        if ci is None:
            continue
        globs = {}
        for st in ci.module.tree.body:
            if isinstance(st, (ast.Assign, ast.AnnAssign)) and getattr(st, 'value', None) is not None:
                v = st.value
                mutable = isinstance(v, (ast.Dict, ast.List, ast.Set, ast.DictComp, ast.ListComp, ast.SetComp)) or \
                    (isinstance(v, ast.Call) and (unparse(v.func).split('.')[-1] in ('dict', 'list', 'set', 'defaultdict', 'OrderedDict', 'deque', 'Counter')
                                                  or (isinstance(v.func, ast.Name) and v.func.id in prog.classes)))
                if mutable:
                    for t in (st.targets if isinstance(st, ast.Assign) else [st.target]):
                        if isinstance(t, ast.Name):
                            globs[t.id] = st
        if not globs:
            continue
        for mname, fn in list(ci.methods.items()) + list(ci.setters.items()):
            for a in walk_shallow(fn):
                if not (isinstance(a, (ast.Assign, ast.AnnAssign)) and isinstance(getattr(a, 'value', None), ast.Name) and a.value.id in globs):
                    continue
                for t in (a.targets if isinstance(a, ast.Assign) else [a.target]):
                    if not is_self_attr(t):
                        continue
                    fld = t.attr
                    m += 1
                    muts = []
                    for sub in prog.subclasses(cname, strict=False):
                        sci = prog.classes[sub]
                        for m2, f2 in list(sci.methods.items()) + list(sci.setters.items()):
                            for x in walk_shallow(f2):
                                tgt = None
                                if isinstance(x, ast.Attribute) and isinstance(x.ctx, (ast.Store, ast.Del)) and is_self_attr(x.value, fld):
                                    tgt = x
                                elif isinstance(x, ast.Subscript) and isinstance(x.ctx, (ast.Store, ast.Del)) and is_self_attr(x.value, fld):
                                    tgt = x
                                elif isinstance(x, ast.Call) and isinstance(x.func, ast.Attribute) and x.func.attr in MUTATORS and is_self_attr(x.func.value, fld):
                                    tgt = x
                                if tgt is not None:
                                    muts.append((sub, m2, tgt))
                    ok = not muts
                    ctx.ob(rule, f'{cname}.{fld}<-{a.value.id}', ok, sample=f'{cname}.{mname}: self.{fld} = {a.value.id} (one module-level object for all instances); changed in place at {len(muts)} site(s)')
                    if not ok:
                        sub, m2, x = muts[0]
                        ctx.finding(rule, f'{cname}.{fld}:shared-module-object', ci, x,
                                    f'`self.{fld}` is bound to the module-level object `{a.value.id}` in {cname}.{mname} and changed in place in {sub}.{m2} (`{short(x, 50)}`): '
                                    f'all {cname} objects share that object, so {consequence}', where=f'{sub}.{m2}')
    # ---- values memoised for the life of the object (functools.cached_property / lru_cache / cache on a method) that are computed from
    # fields some method re-binds later: the memo is never dropped, so the accessor keeps answering for the old state
    k = 0
    MEMO_DECOS = ('cached_property', 'functools.cached_property', 'lru_cache', 'functools.lru_cache', 'cache', 'functools.cache')
    for cname in class_names:
        ci = prog.classes.get(cname)
        if ci is None:
            continue
        for mname, fn in ci.methods.items():
            decos = [unparse(d.func) if isinstance(d, ast.Call) else unparse(d) for d in fn.decorator_list]
            if not any(d in MEMO_DECOS for d in decos):
                continue
            k += 1
            reads = {x.attr for x in walk_shallow(fn) if is_self_attr(x) and isinstance(x.ctx, ast.Load)}
            rebound = []
            for sub in prog.subclasses(cname, strict=False) + [c for c in prog.mro(cname) if c in prog.classes]:
                for m2, f2 in prog.classes[sub].methods.items():
                    if m2 in ('__init__', '__new__'):
                        continue
                    for x in walk_shallow(f2):
                        if is_self_attr(x) and isinstance(x.ctx, (ast.Store, ast.Del)) and x.attr in reads:
                            # ... unless the same method certainly drops the memo (del self.<name> / self.__dict__.pop('<name>', None), also through
                            # a class-level tuple of names) on every normal path
                            dropped = any(k == 'set' and f_ == mname for (k, f_, _n) in must_effects(prog, cname, m2))
                            if not dropped:
                                rebound.append((sub, m2, x.attr))
            ok = not rebound
            ctx.ob(rule, f'{cname}.{mname}:memoised', ok, sample=f'{cname}.{mname} is memoised ({decos}); reads {sorted(reads)}; re-bound later: {sorted(set(r[2] for r in rebound))}')
            if not ok:
                sub, m2, fld = rebound[0]
                ctx.finding(rule, f'{cname}.{mname}:stale-memo', ci, fn,
                            f'{cname}.{mname} is memoised for the life of the object ({", ".join(d for d in decos if d in MEMO_DECOS)}) but is computed from `{fld}`, which '
                            f'{sub}.{m2} re-binds: after that the accessor still answers for the old state, so {consequence}', where=f'{cname}.{mname}')
    # ---- default argument values are evaluated once, when the `def` is executed: a mutable default that is kept by the object (stored in a
    # field / one of its containers) or changed in place is one object for every call that omits the argument
    d = 0
    for cname in class_names:
        ci = prog.classes.get(cname)
        if ci is None:
            continue
        for mname, fn in list(ci.methods.items()) + list(ci.setters.items()):
            a = fn.args
            pos = a.posonlyargs + a.args
            pairs = list(zip(pos[len(pos) - len(a.defaults):], a.defaults)) + [(p, dv) for p, dv in zip(a.kwonlyargs, a.kw_defaults) if dv is not None]
            for p, dv in pairs:
                mutable = isinstance(dv, (ast.Dict, ast.List, ast.Set, ast.DictComp, ast.ListComp, ast.SetComp)) or \
                    (isinstance(dv, ast.Call) and (unparse(dv.func).split('.')[-1] in ('dict', 'list', 'set', 'defaultdict', 'OrderedDict', 'deque', 'Counter', 'Random')
                                                   or (isinstance(dv.func, ast.Name) and dv.func.id in prog.classes)))
                if not mutable:
                    continue
                d += 1
                kept = None
                for st in body_of(fn):
                    for x in ast.walk(st):
                        if isinstance(x, (ast.Assign, ast.AnnAssign)) and isinstance(getattr(x, 'value', None), ast.Name) and x.value.id == p.arg:
                            for t in (x.targets if isinstance(x, ast.Assign) else [x.target]):
                                if is_self_attr(t) or (isinstance(t, ast.Subscript) and is_self_attr(t.value)):
                                    kept = kept or (x, f'stored in `{short(t, 40)}`')
                        elif isinstance(x, ast.Call) and isinstance(x.func, ast.Attribute) and x.func.attr in MUTATORS:
                            if isinstance(x.func.value, ast.Name) and x.func.value.id == p.arg:
                                kept = kept or (x, f'changed in place by `{short(x, 40)}`')
                            elif is_self_attr(x.func.value) and any(isinstance(g, ast.Name) and g.id == p.arg for g in x.args):
                                kept = kept or (x, f'stored by `{short(x, 40)}`')
                        elif isinstance(x, (ast.Subscript, ast.Attribute)) and isinstance(x.ctx, (ast.Store, ast.Del)) and isinstance(x.value, ast.Name) and x.value.id == p.arg:
                            kept = kept or (x, f'changed in place by `{short(x, 40)}`')
                    if isinstance(st, (ast.Assign, ast.AnnAssign)) and any(isinstance(t, ast.Name) and t.id == p.arg
                                                                           for t in (st.targets if isinstance(st, ast.Assign) else [st.target])):
                        break                       # re-bound on every path from here on
                ok = kept is None
                ctx.ob(rule, f'{cname}.{mname}({p.arg}=)', ok, sample=f'{cname}.{mname}: default `{p.arg}={short(dv, 30)}` is evaluated once; kept or changed by the object: {not ok}')
                if not ok:
                    ctx.finding(rule, f'{cname}.{mname}:{p.arg}:shared-default', ci, dv,
                                f'the default value `{short(dv, 50)}` of parameter `{p.arg}` of {cname}.{mname} is created once, when the function is defined, and is '
                                f'{kept[1]}: every call that omits the argument uses that one object, so {consequence}', where=f'{cname}.{mname}')
    ctx.note(f'{rule}: {n} class-level containers, {m} module-level objects stored in instances, {k} memoised accessors and {d} mutable default arguments '
             f'examined in {len(class_names)} classes')


# ------------------------------------------------------------------------------------------------ container kinds of compared fields
def container_kind(prog, ci, fn, e, depth=0, seen=None):
    """'list' | 'tuple' | 'dict' | 'set' | ('field', name) | None (not known) -- the kind of container an expression evaluates to; names are
    followed through single assignments, class constants and the returns of program functions.  list == tuple is False whatever the
    elements are, so two values that meet in `==` must be of one kind."""
    seen = seen or set()
    if depth > 6:
        return None
    if isinstance(e, (ast.List, ast.ListComp)):
        return 'list'
    if isinstance(e, ast.Tuple):
        return 'tuple'
    if isinstance(e, (ast.Dict, ast.DictComp)):
        return 'dict'
    if isinstance(e, (ast.Set, ast.SetComp)):
        return 'set'
    if isinstance(e, ast.BinOp) and isinstance(e.op, (ast.Mult, ast.Add)):
        l, r = container_kind(prog, ci, fn, e.left, depth + 1, seen), container_kind(prog, ci, fn, e.right, depth + 1, seen)
        if isinstance(e.op, ast.Mult):
            return l if l in ('list', 'tuple') else (r if r in ('list', 'tuple') else None)
        return l if l == r else None
    if isinstance(e, ast.IfExp):
        l, r = container_kind(prog, ci, fn, e.body, depth + 1, seen), container_kind(prog, ci, fn, e.orelse, depth + 1, seen)
        return l if l == r else None
    if isinstance(e, ast.Subscript) and isinstance(e.slice, ast.Slice):
        return container_kind(prog, ci, fn, e.value, depth + 1, seen)
    if isinstance(e, ast.Call):
        f = unparse(e.func)
        if f in ('list', 'sorted'):
            return 'list'
        if f == 'tuple':
            return 'tuple'
        if f in ('dict',):
            return 'dict'
        if f in ('set', 'frozenset'):
            return 'set'
        if f in ('copy.copy', 'copy.deepcopy') and e.args:
            return container_kind(prog, ci, fn, e.args[0], depth + 1, seen)
        if isinstance(e.func, ast.Attribute) and e.func.attr == 'copy' and not e.args:
            return container_kind(prog, ci, fn, e.func.value, depth + 1, seen)
        # a function / method of the program: the kind all its returns agree on
        target = None
        if isinstance(e.func, ast.Attribute):
            owner = unparse(e.func.value)
            cands = []
            if owner in prog.classes:
                cands = [owner]
            elif ci is not None:
                cands = [c for c in prog.classes if e.func.attr in prog.classes[c].methods and prog.classes[c].module is ci.module]
            fns = [prog.classes[c].methods[e.func.attr] for c in cands if e.func.attr in prog.classes[c].methods]
            fns = [f_ for f_ in fns if not (len(body_of(f_)) == 1 and isinstance(body_of(f_)[0], (ast.Pass, ast.Raise)))]
            kinds = set()
            for f_ in fns:
                if id(f_) in seen:
                    continue
                owner_ci = next((prog.classes[c] for c in cands if prog.classes[c].methods.get(e.func.attr) is f_), ci)
                for r_ in walk_shallow(f_):
                    if isinstance(r_, ast.Return) and r_.value is not None:
                        kinds.add(container_kind(prog, owner_ci, f_, r_.value, depth + 1, seen | {id(f_)}))
            kinds = {k for k in kinds if not (isinstance(k, tuple) and k[0] == 'field')} or kinds
            return next(iter(kinds)) if len(kinds) == 1 else None
        return None
    if isinstance(e, ast.Name) and fn is not None:
        vals = [a for a in walk_shallow(fn) if isinstance(a, (ast.Assign, ast.AnnAssign)) and getattr(a, 'value', None) is not None
                and any(isinstance(t, ast.Name) and t.id == e.id for t in (a.targets if isinstance(a, ast.Assign) else [a.target]))]
        kinds = {container_kind(prog, ci, fn, a.value, depth + 1, seen) for a in vals}
        return next(iter(kinds)) if len(kinds) == 1 else None
    if isinstance(e, ast.Attribute):
        owner = unparse(e.value)
        oc = prog.classes.get(owner) or (ci if owner in ('self', 'cls', 'type(self)') else None)
        if oc is not None:
            for (name, value, _st) in oc.all_assigns:
                if name == e.attr:
                    return container_kind(prog, oc, None, value, depth + 1, seen)
        return ('field', e.attr)
    return None


def compared_container_fields(ctx, rule, module_name, floor=1):
    """Fields F compared as whole containers (`a.F == b.F`, `a.F != b.F`): every value stored into F anywhere must be of one container kind."""
    prog = ctx.prog
    ctx.rule(rule, 'a field compared with == / != as a whole container is bound to one kind of container (list / tuple / dict / set) everywhere')
    mod = prog.modules[module_name]
    fields = set()
    for n in ast.walk(mod.tree):
        if isinstance(n, ast.Compare) and len(n.ops) == 1 and isinstance(n.ops[0], (ast.Eq, ast.NotEq)):
            l, r = n.left, n.comparators[0]
            if isinstance(l, ast.Attribute) and isinstance(r, ast.Attribute) and l.attr == r.attr and unparse(l.value) != unparse(r.value):
                fields.add(l.attr)
    ctx.floor(rule, 'fields compared as containers', len(fields), floor)
    for F in sorted(fields):
        stores = []
        for cname, ci in prog.classes.items():
            if ci.module is not mod:
                continue
            for (name, value, st) in ci.all_assigns:
                if name == F and value is not None:
                    stores.append((ci, None, st, value, cname))
            for mname, fn in list(ci.methods.items()) + list(ci.setters.items()):
                for a in walk_shallow(fn):
                    if isinstance(a, (ast.Assign, ast.AnnAssign)) and getattr(a, 'value', None) is not None:
                        for t in (a.targets if isinstance(a, ast.Assign) else [a.target]):
                            if isinstance(t, ast.Attribute) and t.attr == F:
                                stores.append((ci, fn, a, a.value, f'{cname}.{mname}'))
        kinds = {}
        for (ci, fn, st, v, where) in stores:
            k = container_kind(prog, ci, fn, v)
            if isinstance(k, tuple) and k[0] == 'field':
                k = 'same' if k[1] == F else None
            kinds.setdefault(k, []).append((ci, st, v, where))
        known = {k: v for k, v in kinds.items() if k in ('list', 'tuple', 'dict', 'set')}
        ok = len(known) <= 1
        ctx.ob(rule, f'{F}', ok, sample=f'`{F}` is stored at {len(stores)} site(s); container kinds: ' + ', '.join(f'{k}: {len(v)}' for k, v in sorted(kinds.items(), key=lambda kv: str(kv[0]))))
        if not ok:
            major = max(known, key=lambda k: len(known[k]))
            for k, sites in known.items():
                if k == major:
                    continue
                for (ci, st, v, where) in sites:
                    ctx.finding(rule, f'{where}:{F}:{k}', ci, st,
                                f'`{F}` is bound to a {k} (`{short(v, 50)}`) here and to a {major} at {len(known[major])} other site(s) (e.g. `{short(known[major][0][2], 40)}` in '
                                f'{known[major][0][3]}); the field is compared with == / != as a whole, and a {k} never equals a {major}: values with the same contents '
                                f'compare unequal', where=where)


# ------------------------------------------------------------------------------------------------ memoised values
def memo_soundness(ctx, rule, module_names):
    """stamped memos (`if self.stamp != self.counter: refresh`) answer for the current state; keyed memos have every input in their key
    (pdsa/memos.py).  Sound stamped memos were already removed by the normaliser: what is found here is reported."""
    from . import memos
    prog = ctx.prog
    ctx.rule(rule, 'a memoised value answers for the current state: a stamp guard fails after every change of what the value was computed from; '
                   'every input of a keyed memo entry is part of its key')
    trees = {n: prog.modules[n].tree for n in module_names if n in prog.modules}
    n = 0
    for memo in memos.find_stamped(trees):
        n += 1
        probs = memos.check_stamped(memo, trees)
        ctx.examined()
        ctx.ob(rule, f'{memo.guard_cls}.{memo.guard_fn.name}:stamp:{memo.stamp}', not probs,
               sample=f'{memo.guard_cls}: memo {sorted(memo.value_fields)} valid while self.{memo.stamp} == {unparse(memo.src)}: every change of its inputs invalidates it: {not probs}')
        for (c, m, x, msg) in probs[:2]:
            ci = prog.classes.get(c)
            ctx.finding(rule, f'{c}.{m.name}:stale-memo:{memo.stamp}', ci, x if hasattr(x, 'lineno') else m, msg, where=f'{c}.{m.name}')
    for mn in trees:
        # keyed memos are read in the source as written: inlining a helper with a constant argument would hide the very input that is missing
        tree = ast.parse(prog.modules[mn].src)
        for (cls, fn, st, mt, missing) in memos.keyed_memo_problems(tree):
            n += 1
            ci = prog.classes.get(cls) if cls else None
            where = f'{cls}.{fn.name}' if cls else f'{mn}.{fn.name}'
            ctx.ob(rule, f'{where}:memo-key', False, sample=f'{where}: `{short(st, 60)}`')
            ctx.finding(rule, f'{where}:memo-key:{",".join(missing)}', ci, st,
                        f'the entry stored by `{short(st, 70)}` is computed from {", ".join("`" + m_ + "`" for m_ in missing)}, which is not part of the key it is stored under: '
                        f'a later call that differs only in {" / ".join(missing)} is answered with this entry', where=where, module=prog.modules[mn])
        for (cfn, caller, node, text) in memos.cached_mutable_results(tree):
            n += 1
            ctx.ob(rule, f'{mn}.{cfn.name}:cached-result', False, sample=f'{mn}.{caller.name}: `{text}` changes the result of the cached {cfn.name}()')
            ctx.finding(rule, f'{mn}.{caller.name}:cached-result:{cfn.name}', None, node,
                        f'`{text[:60]}` changes in place what {cfn.name}() returned, and {cfn.name}() is memoised ({", ".join(d for d in memos.CACHE_DECOS[:2])}): every later call with '
                        f'the same arguments -- from any object, for the rest of the process -- gets the changed object', where=f'{mn}.{caller.name}', module=prog.modules[mn])
    ctx.note(f'{rule}: {n} memo guard(s) / keyed memo store(s) with findings or left after normalisation in {sorted(trees)}')
