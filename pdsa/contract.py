"""E14 -- abstract interpretation of a method against a *library contract value*.

The question decided: does `restore_state(x)` accept every `x` that `save_state()` can hand out?  `save_state` returns
`random.Random.getstate()` (R12.4), whose result is documented / implemented as

    (3, (w0, ..., w623, position), gauss_next)      wi in [0, 2**32 - 1],  position in [1, 624],  gauss_next None or a float

(position 624 is the state right after seeding -- set_seed / reset / construction --, 1..624 after any draw; 0 can only be fed in from
outside and is not part of the contract).  The method is interpreted on this abstract value: tuples of known shape, homogeneous sequences
with per-index overrides, integer intervals, unions.  Every condition is decided to True / False / Both; `Both` is *exact* when it comes
from one comparison of an integer interval with constants (a witness value exists on either side; the interval is refined on both
branches, also for sub-expressions like `internal[-1]`), and *unknown* when an operand is outside the domain.  A `raise` reached through
exact decisions only is a refusal of a genuine saved state (finding, with the witness); a `raise` behind an unknown decision is left
undecided and only counted.  Helper methods / module functions called on the way are interpreted in place (bounded depth).

Nothing of the analysed program is executed.
"""
from __future__ import annotations

import ast

from .core import unparse


class Unsupported(Exception):
    pass


# ------------------------------------------------------------------ values
class Int:
    origin = None

    def __init__(self, lo, hi, origin=None):
        self.lo, self.hi = lo, hi
        if origin is not None:
            self.origin = origin

    def __repr__(self):
        return f'int[{self.lo}..{self.hi}]'

    @property
    def empty(self):
        return self.lo is not None and self.hi is not None and self.lo > self.hi


class Float:
    origin = None

    def __repr__(self):
        return 'float'


class Const:
    origin = None

    def __init__(self, v):
        self.v = v

    def __repr__(self):
        return f'const({self.v!r})'


class Tup:
    def __init__(self, items, kind='tuple'):
        self.items, self.kind = list(items), kind

    def __repr__(self):
        return f'{self.kind}{self.items}'


class Hom:
    """sequence of n items, all `elem` except the overrides (non-negative index -> value)"""

    def __init__(self, n, elem, over=None, kind='tuple'):
        self.n, self.elem, self.over, self.kind = n, elem, dict(over or {}), kind

    def __repr__(self):
        return f'{self.kind}<{self.n} x {self.elem}; {self.over}>'

    def at(self, i):
        if i < 0:
            i += self.n
        if not 0 <= i < self.n:
            raise IndexError
        return self.over.get(i, self.elem)

    def distinct(self):
        out = [('any word', self.elem)] if self.n > len(self.over) else []
        return out + [(f'item {i}', v) for i, v in sorted(self.over.items())]


class Union_:
    origin = None

    def __init__(self, alts, origin=None):
        self.alts = list(alts)
        if origin is not None:
            self.origin = origin

    def __repr__(self):
        return ' | '.join(map(repr, self.alts))


class Unknown:
    def __repr__(self):
        return '?'


UNKNOWN = Unknown()
T, F, B, U = 'T', 'F', 'B', 'U'


def mt_getstate():
    """the contract of random.Random.getstate() for states reachable through seeding and drawing"""
    return Tup([Int(3, 3, ('version',)), Hom(625, Int(0, 2 ** 32 - 1, ('word',)), {624: Int(1, 624, ('position',))}), Union_([Const(None), Float()], ('gauss_next',))])


def same_as(v, c):
    """v is the contract value c itself, or a tuple / list re-built from its parts (refinements of a part keep its origin)"""
    if v is c:
        return True
    if isinstance(c, Tup):
        if isinstance(v, Tup) and len(v.items) == len(c.items):
            return all(same_as(a, b) for a, b in zip(v.items, c.items))
        return False
    if isinstance(c, Hom):
        if isinstance(v, Hom):
            return v.n == c.n and same_as(v.elem, c.elem) and set(v.over) == set(c.over) and all(same_as(v.over[i], c.over[i]) for i in c.over)
        return False
    if isinstance(c, Int) and isinstance(v, Int) and c.lo == c.hi and v.lo == v.hi == c.lo:
        return True
    return getattr(v, 'origin', None) is not None and getattr(v, 'origin', None) == getattr(c, 'origin', None)


def _type_names(v):
    if isinstance(v, Int):
        return {'int', 'Integral', 'Real', 'Number', 'Rational', 'Complex', 'SupportsInt', 'SupportsFloat', 'SupportsIndex', 'object'}
    if isinstance(v, Float):
        return {'float', 'Real', 'Number', 'Complex', 'SupportsFloat', 'SupportsInt', 'object'}
    if isinstance(v, (Tup, Hom)):
        return {v.kind, 'Sequence', 'Iterable', 'Collection', 'Sized', 'Container', 'Reversible', 'object'}
    if isinstance(v, Const):
        if v.v is None:
            return {'NoneType', 'object'}
        if isinstance(v.v, bool):
            return {'bool', 'int', 'Integral', 'Real', 'Number', 'object'}
        if isinstance(v.v, str):
            return {'str', 'Sequence', 'Iterable', 'Collection', 'Sized', 'Container', 'object'}
    return None


KNOWN_TYPES = {'int', 'float', 'bool', 'str', 'tuple', 'list', 'dict', 'set', 'frozenset', 'bytes', 'bytearray', 'complex', 'NoneType', 'Integral', 'Real',
               'Number', 'Rational', 'Complex', 'Sequence', 'Iterable', 'Collection', 'Sized', 'Container', 'Reversible', 'Mapping', 'MutableSequence',
               'MutableMapping', 'Set', 'object', 'SupportsInt', 'SupportsFloat', 'SupportsIndex'}


class _Return(Exception):
    def __init__(self, v):
        self.v = v


class Outcome:
    def __init__(self, kind, node, exact, trail, value=None, accepts=None):
        self.kind, self.node, self.exact, self.trail, self.value = kind, node, exact, trail, value
        if accepts is None and kind == 'fall' and isinstance(value, dict):
            accepts = value.get('#accepts', ())
        self.accepts = tuple(accepts or ())     # setstate calls performed on the way: (call node, abstract argument)


class Interp:
    MAX_PATHS = 400
    MAX_DEPTH = 4

    def __init__(self, prog, cls):
        self.prog, self.cls = prog, cls
        self.paths = 0
        self.visited = []           # functions interpreted
        self.module_consts = {}
        for m in prog.modules.values():
            for st in m.tree.body:
                if isinstance(st, ast.Assign) and len(st.targets) == 1 and isinstance(st.targets[0], ast.Name) and isinstance(st.value, ast.Constant) \
                        and type(st.value.value) is int:
                    self.module_consts.setdefault(st.targets[0].id, st.value.value)
                elif isinstance(st, ast.AnnAssign) and isinstance(st.target, ast.Name) and isinstance(st.value, ast.Constant) and type(st.value.value) is int:
                    self.module_consts.setdefault(st.target.id, st.value.value)

    # -------------------------------------------------------------- run
    def run(self, fn, args, depth=0):
        """all outcomes of fn on the abstract arguments: list of Outcome(kind in return / raise / fall)"""
        env = {}
        if fn not in self.visited:
            self.visited.append(fn)
        params = [a.arg for a in fn.args.posonlyargs + fn.args.args]
        decos = [unparse(d) for d in fn.decorator_list]
        if params and params[0] in ('self', 'cls') and 'staticmethod' not in decos:
            env[params[0]] = UNKNOWN
            params = params[1:]
        defaults = fn.args.defaults
        for i, p in enumerate(params):
            if i < len(args):
                env[p] = args[i]
            else:
                j = i - (len(params) - len(defaults))
                env[p] = self.ev(defaults[j], env) if 0 <= j < len(defaults) else UNKNOWN
        for a, d in zip(fn.args.kwonlyargs, fn.args.kw_defaults):
            env[a.arg] = self.ev(d, env) if d is not None else UNKNOWN
        body = [s for s in fn.body if not (isinstance(s, ast.Expr) and isinstance(s.value, ast.Constant) and isinstance(s.value.value, str))]
        return self.block(body, env, True, [], depth)

    def block(self, stmts, env, exact, trail, depth):
        """-> list of Outcome; kind 'fall' carries the environment in .value"""
        states = [(env, exact, trail)]
        done = []
        for st in stmts:
            nxt = []
            for (e, x, tr) in states:
                for o in self.stmt(st, e, x, tr, depth):
                    if o.kind == 'fall':
                        nxt.append((o.value, o.exact, o.trail))
                    else:
                        done.append(o)
            states = nxt
            self.paths += len(states)
            if self.paths > self.MAX_PATHS * 50 or len(states) > self.MAX_PATHS:
                raise Unsupported('too many paths')
            if not states:
                break
        return done + [Outcome('fall', None, x, tr, e) for (e, x, tr) in states]

    def stmt(self, st, env, exact, trail, depth):
        fall = lambda e=env, x=exact, tr=trail: [Outcome('fall', None, x, tr, e)]
        if isinstance(st, (ast.Pass, ast.Import, ast.ImportFrom, ast.Global, ast.Nonlocal)):
            return fall()
        if isinstance(st, ast.Raise):
            return [Outcome('raise', st, exact, trail, accepts=env.get('#accepts'))]
        if isinstance(st, ast.Return):
            outs = []
            for v, x, raised, e2 in self.ev_call_aware(st.value, env, exact, trail, depth):
                outs.append(raised if raised is not None else Outcome('return', st, x, trail, v, accepts=e2.get('#accepts')))
            return outs
        if isinstance(st, ast.Assert):
            outs = []
            for tv, e2, x2 in self.branch(st.test, env):
                tr2 = trail + [(unparse(st.test), tv)]
                outs.append(Outcome('fall', None, exact and x2, tr2, e2) if tv else Outcome('raise', st, exact and x2, tr2, accepts=e2.get('#accepts')))
            return outs
        if isinstance(st, (ast.Assign, ast.AnnAssign)):
            if isinstance(st, ast.AnnAssign):
                if st.value is None:
                    return fall()
                targets = [st.target]
            else:
                targets = st.targets
            outs = []
            for v, x, raised, e2 in self.ev_call_aware(st.value, env, exact, trail, depth):
                if raised is not None:
                    outs.append(raised)
                    continue
                e2 = dict(e2)
                for t in targets:
                    self.bind(t, v, e2)
                outs.append(Outcome('fall', None, x, trail, e2))
            return outs
        if isinstance(st, ast.AugAssign):
            e2 = dict(env)
            if isinstance(st.target, ast.Name):
                e2[st.target.id] = UNKNOWN
            return fall(e2)
        if isinstance(st, ast.Expr):
            outs = []
            for v, x, raised, e2 in self.ev_call_aware(st.value, env, exact, trail, depth):
                outs.append(raised if raised is not None else Outcome('fall', None, x, trail, e2))
            return outs
        if isinstance(st, ast.If):
            outs = []
            for tv, e2, x2 in self.branch(st.test, env):
                tr2 = trail + [(unparse(st.test), tv)]
                outs += self.block(st.body if tv else st.orelse, e2, exact and x2, tr2, depth)
            return outs
        if isinstance(st, ast.For):
            seq = self.ev(st.iter, env)
            if isinstance(seq, Tup):
                elems = [(f'item {i}', v) for i, v in enumerate(seq.items)]
            elif isinstance(seq, Hom):
                elems = seq.distinct()
            else:
                elems = [('an item', UNKNOWN)]
            outs = []
            ex_after = exact
            for label, v in elems:
                e2 = dict(env)
                self.bind(st.target, v, e2)
                for o in self.block(st.body, e2, exact and not isinstance(seq, Unknown), trail + [(f'for {unparse(st.target)} in {unparse(st.iter)}: {label} = {v}', True)], depth):
                    if o.kind in ('raise', 'return'):
                        if o.kind == 'return':
                            o.exact = False          # which iteration returns is not modelled
                        outs.append(o)
                    elif o.kind in ('break', 'continue'):
                        ex_after = False if o.kind == 'break' else ex_after
            e3 = dict(env)
            for n in ast.walk(st):
                if isinstance(n, ast.Name) and isinstance(n.ctx, ast.Store):
                    e3[n.id] = UNKNOWN
                if isinstance(n, ast.Call) and isinstance(n.func, ast.Attribute) and n.func.attr == 'setstate':
                    e3['#accepts'] = e3.get('#accepts', ()) + ((n, UNKNOWN),)       # inside a loop: how often is not modelled
            outs += self.block(st.orelse, e3, ex_after, trail, depth) if st.orelse else [Outcome('fall', None, ex_after, trail, e3)]
            return outs
        if isinstance(st, ast.Break):
            return [Outcome('break', st, exact, trail, accepts=env.get('#accepts'))]
        if isinstance(st, ast.Continue):
            return [Outcome('continue', st, exact, trail, accepts=env.get('#accepts'))]
        if isinstance(st, ast.Try):
            # raises inside the body may be caught: everything below is undecided
            outs = []
            for o in self.block(st.body + st.orelse + st.finalbody, env, False, trail, depth):
                o.exact = False
                outs.append(o)
            return outs
        if isinstance(st, (ast.While, ast.With, ast.Match)):
            e3 = dict(env)
            for n in ast.walk(st):
                if isinstance(n, ast.Name) and isinstance(n.ctx, ast.Store):
                    e3[n.id] = UNKNOWN
            outs = [Outcome('fall', None, False, trail, e3)]
            for n in ast.walk(st):
                if isinstance(n, ast.Raise):
                    outs.append(Outcome('raise', n, False, trail, accepts=env.get('#accepts')))
            return outs
        if isinstance(st, (ast.FunctionDef, ast.ClassDef, ast.Delete)):
            return fall()
        raise Unsupported(f'statement {type(st).__name__}')

    def bind(self, target, v, env):
        if isinstance(target, ast.Name):
            env[target.id] = v
        elif isinstance(target, (ast.Tuple, ast.List)):
            n = len(target.elts)
            if isinstance(v, Tup) and len(v.items) == n and not any(isinstance(t, ast.Starred) for t in target.elts):
                for t, x in zip(target.elts, v.items):
                    self.bind(t, x, env)
            elif isinstance(v, Hom) and v.n == n and not any(isinstance(t, ast.Starred) for t in target.elts):
                for i, t in enumerate(target.elts):
                    self.bind(t, v.at(i), env)
            elif isinstance(v, (Tup, Hom)) and sum(isinstance(t, ast.Starred) for t in target.elts) == 1:
                items = v.items if isinstance(v, Tup) else None
                k = next(i for i, t in enumerate(target.elts) if isinstance(t, ast.Starred))
                tail = n - k - 1
                ln = len(items) if items is not None else v.n
                for i in range(k):
                    self.bind(target.elts[i], self.index(v, i), env)
                for j in range(tail):
                    self.bind(target.elts[n - 1 - j], self.index(v, ln - 1 - j), env)
                self.bind(target.elts[k].value, self.slice(v, k, ln - tail, 'list'), env)
            else:
                for t in target.elts:
                    for nm in ast.walk(t):
                        if isinstance(nm, ast.Name):
                            env[nm.id] = UNKNOWN
        # attribute / subscript stores: not part of the value flow followed here

    # ---------------------------------------------------------- sequences
    def index(self, v, i):
        try:
            if isinstance(v, Tup):
                return v.items[i]
            if isinstance(v, Hom):
                return v.at(i)
        except IndexError:
            return UNKNOWN
        return UNKNOWN

    def slice(self, v, lo, hi, kind=None):
        ln = len(v.items) if isinstance(v, Tup) else v.n
        lo = 0 if lo is None else lo + ln if lo < 0 else lo
        hi = ln if hi is None else hi + ln if hi < 0 else hi
        lo, hi = max(0, min(ln, lo)), max(0, min(ln, hi))
        if isinstance(v, Tup):
            return Tup(v.items[lo:hi], kind or v.kind)
        return Hom(max(0, hi - lo), v.elem, {i - lo: x for i, x in v.over.items() if lo <= i < hi}, kind or v.kind)

    # -------------------------------------------------------- expressions
    def const_int(self, node, env):
        v = self.ev(node, env)
        if isinstance(v, Int) and v.lo is not None and v.lo == v.hi:
            return v.lo
        return None

    def ev(self, node, env):
        if node is None:
            return Const(None)
        key = '@' + unparse(node)
        if key in env:
            return env[key]
        if isinstance(node, ast.Constant):
            v = node.value
            if type(v) is int:
                return Int(v, v)
            if isinstance(v, float):
                return Float()
            return Const(v)
        if isinstance(node, ast.Name):
            if node.id in env:
                return env[node.id]
            if node.id in self.module_consts:
                c = self.module_consts[node.id]
                return Int(c, c)
            return UNKNOWN
        if isinstance(node, ast.Attribute):
            # Cls.CONST / self.CONST of an int class constant
            if isinstance(node.value, ast.Name) and node.value.id in ('self', 'cls', self.cls) | set(self.prog.classes):
                cn = self.cls if node.value.id in ('self', 'cls') else node.value.id
                for k in self.prog.mro(cn):
                    c = self.prog.classes[k].const(node.attr)
                    if type(c) is int:
                        return Int(c, c)
                    if node.attr in self.prog.classes[k].assigns:
                        break
            return UNKNOWN
        if isinstance(node, (ast.Tuple, ast.List)):
            if any(isinstance(e, ast.Starred) for e in node.elts):
                return UNKNOWN
            return Tup([self.ev(e, env) for e in node.elts], 'tuple' if isinstance(node, ast.Tuple) else 'list')
        if isinstance(node, ast.Subscript):
            base = self.ev(node.value, env)
            if not isinstance(base, (Tup, Hom)):
                return UNKNOWN
            if isinstance(node.slice, ast.Slice):
                if node.slice.step is not None:
                    return UNKNOWN
                lo = self.const_int(node.slice.lower, env) if node.slice.lower is not None else None
                hi = self.const_int(node.slice.upper, env) if node.slice.upper is not None else None
                if (node.slice.lower is not None and lo is None) or (node.slice.upper is not None and hi is None):
                    return UNKNOWN
                return self.slice(base, lo, hi)
            i = self.const_int(node.slice, env)
            return self.index(base, i) if i is not None else UNKNOWN
        if isinstance(node, ast.UnaryOp) and isinstance(node.op, ast.USub):
            v = self.ev(node.operand, env)
            if isinstance(v, Int) and v.lo is not None and v.hi is not None:
                return Int(-v.hi, -v.lo)
            return UNKNOWN
        if isinstance(node, ast.BinOp):
            a, b = self.ev(node.left, env), self.ev(node.right, env)
            if isinstance(node.op, ast.Add) and isinstance(a, (Tup, Hom)) and isinstance(b, (Tup, Hom)) and a.kind == b.kind:
                if isinstance(a, Tup) and isinstance(b, Tup):
                    return Tup(a.items + b.items, a.kind)
                la = len(a.items) if isinstance(a, Tup) else a.n
                lb = len(b.items) if isinstance(b, Tup) else b.n
                homs = [x for x in (a, b) if isinstance(x, Hom)]
                if len(homs) == 2 and homs[0].elem is not homs[1].elem:
                    return UNKNOWN
                over = {}
                for off, x in ((0, a), (la, b)):
                    for i, it_ in (enumerate(x.items) if isinstance(x, Tup) else x.over.items()):
                        over[off + i] = it_
                return Hom(la + lb, homs[0].elem, over, a.kind)
            if isinstance(a, Int) and isinstance(b, Int) and None not in (a.lo, a.hi, b.lo, b.hi):
                if isinstance(node.op, ast.Add):
                    return Int(a.lo + b.lo, a.hi + b.hi)
                if isinstance(node.op, ast.Sub):
                    return Int(a.lo - b.hi, a.hi - b.lo)
                if isinstance(node.op, ast.Mult):
                    c = [a.lo * b.lo, a.lo * b.hi, a.hi * b.lo, a.hi * b.hi]
                    return Int(min(c), max(c))
                if isinstance(node.op, ast.Pow) and a.lo == a.hi and b.lo == b.hi and 0 <= b.lo <= 64:
                    return Int(a.lo ** b.lo, a.lo ** b.lo)
                if isinstance(node.op, ast.LShift) and a.lo == a.hi and b.lo == b.hi and 0 <= b.lo <= 64:
                    return Int(a.lo << b.lo, a.lo << b.lo)
            return UNKNOWN
        if isinstance(node, ast.IfExp):
            outs = self.branch(node.test, env)
            vals = [self.ev(node.body if tv else node.orelse, e2) for tv, e2, _x in outs]
            return vals[0] if len(vals) == 1 else UNKNOWN
        if isinstance(node, ast.Call):
            fname = unparse(node.func)
            if fname == 'len' and len(node.args) == 1:
                v = self.ev(node.args[0], env)
                if isinstance(v, Tup):
                    return Int(len(v.items), len(v.items))
                if isinstance(v, Hom):
                    return Int(v.n, v.n)
                return UNKNOWN
            if fname in ('tuple', 'list') and len(node.args) == 1 and not node.keywords:
                v = self.ev(node.args[0], env)
                if isinstance(v, Tup):
                    return Tup(v.items, fname)
                if isinstance(v, Hom):
                    return Hom(v.n, v.elem, v.over, fname)
                return UNKNOWN
            if fname in ('int', 'operator.index') and len(node.args) == 1:
                v = self.ev(node.args[0], env)
                return v if isinstance(v, Int) else UNKNOWN
            if fname in ('min', 'max') and node.args and not node.keywords:
                vs = [self.ev(a, env) for a in node.args]
                if len(vs) == 1 and isinstance(vs[0], Hom):
                    vs = [v for _l, v in vs[0].distinct()]
                if all(isinstance(v, Int) and None not in (v.lo, v.hi) for v in vs) and vs:
                    f_ = min if fname == 'min' else max
                    return Int(f_(v.lo for v in vs), f_(v.hi for v in vs))
                return UNKNOWN
            return UNKNOWN
        if isinstance(node, (ast.Compare, ast.BoolOp)) or (isinstance(node, ast.UnaryOp) and isinstance(node.op, ast.Not)):
            outs = self.branch(node, env)
            tvs = {tv for tv, _e, _x in outs}
            if len(tvs) == 1 and all(x for _t, _e, x in outs):
                return Const(tvs.pop())
            return UNKNOWN
        if isinstance(node, ast.JoinedStr):
            return UNKNOWN
        return UNKNOWN

    # ---------------------------------------------------------- conditions
    def branch(self, test, env):
        """-> [(truth, refined env, exact)] -- the feasible outcomes of the test"""
        if isinstance(test, ast.UnaryOp) and isinstance(test.op, ast.Not):
            return [(not tv, e, x) for tv, e, x in self.branch(test.operand, env)]
        if isinstance(test, ast.BoolOp):
            is_and = isinstance(test.op, ast.And)
            outs = []
            first, rest = test.values[0], test.values[1:]
            for tv, e, x in self.branch(first, env):
                if (tv and not is_and) or (not tv and is_and) or not rest:
                    outs.append((tv, e, x))
                else:
                    sub = rest[0] if len(rest) == 1 else ast.BoolOp(op=test.op, values=rest)
                    for tv2, e2, x2 in self.branch(sub, e):
                        outs.append((tv2, e2, x and x2))
            return outs
        if isinstance(test, ast.Compare) and len(test.ops) > 1:
            parts = []
            left = test.left
            for op, right in zip(test.ops, test.comparators):
                parts.append(ast.Compare(left=left, ops=[op], comparators=[right]))
                left = right
            return self.branch(ast.BoolOp(op=ast.And(), values=parts), env)
        if isinstance(test, ast.NamedExpr):
            raise Unsupported('walrus in a condition')
        if isinstance(test, ast.Compare) and isinstance(test.ops[0], (ast.In, ast.NotIn)) and isinstance(test.comparators[0], ast.Call) \
                and unparse(test.comparators[0].func) == 'range' and 1 <= len(test.comparators[0].args) <= 2 and isinstance(self.ev(test.left, env), Int):
            ra = test.comparators[0].args
            lo, hi = (ast.Constant(0), ra[0]) if len(ra) == 1 else ra
            chain = ast.Compare(left=lo, ops=[ast.LtE(), ast.Lt()], comparators=[test.left, hi])
            outs = self.branch(chain, env)
            return outs if isinstance(test.ops[0], ast.In) else [(not tv, e, x) for tv, e, x in outs]
        t = self.truth(test, env)
        if t == T:
            return [(True, env, True)]
        if t == F:
            return [(False, env, True)]
        outs = []
        for want in (True, False):
            e2 = self.assume(test, want, env)
            if e2 is not None:
                outs.append((want, e2, t == B))
        return outs

    def truth(self, test, env):
        if isinstance(test, ast.Constant):
            return T if test.value else F
        if isinstance(test, ast.Compare) and len(test.ops) == 1:
            op = test.ops[0]
            a, b = self.ev(test.left, env), self.ev(test.comparators[0], env)
            if isinstance(op, (ast.Is, ast.IsNot, ast.Eq, ast.NotEq)) and (self._is_none(a) is not None and self._is_none(b) is not None):
                na, nb = self._is_none(a), self._is_none(b)
                if B in (na, nb):
                    r = B
                elif na == T and nb == T:
                    r = T
                elif na != nb:
                    r = F
                else:
                    r = None
                if r is not None:
                    return r if isinstance(op, (ast.Is, ast.Eq)) else {T: F, F: T, B: B}[r]
            if isinstance(op, (ast.Eq, ast.NotEq)) and isinstance(test.left, ast.Call) and unparse(test.left.func) == 'type':
                ts = self._type_test(self.ev(test.left.args[0], env), test.comparators[0], exact_type=True) if len(test.left.args) == 1 else U
                return ts if isinstance(op, ast.Eq) else {T: F, F: T, B: B, U: U}[ts]
            if isinstance(op, (ast.Is, ast.IsNot)) and isinstance(test.left, ast.Call) and unparse(test.left.func) == 'type':
                ts = self._type_test(self.ev(test.left.args[0], env), test.comparators[0], exact_type=True) if len(test.left.args) == 1 else U
                return ts if isinstance(op, ast.Is) else {T: F, F: T, B: B, U: U}[ts]
            if isinstance(a, Int) and isinstance(b, Int):
                return self._cmp(op, a, b)
            if isinstance(op, (ast.Eq, ast.NotEq)) and isinstance(a, Const) and isinstance(b, Const):
                r = T if a.v == b.v else F
                return r if isinstance(op, ast.Eq) else {T: F, F: T}[r]
            if isinstance(op, (ast.In, ast.NotIn)) and isinstance(a, Int) and isinstance(b, Tup) and all(isinstance(x, Int) for x in b.items):
                rs = [self._cmp(ast.Eq(), a, x) for x in b.items]
                r = T if T in rs else F if all(x == F for x in rs) else (B if a.lo is not None and a.hi is not None else U)
                return r if isinstance(op, ast.In) else {T: F, F: T, B: B, U: U}[r]
            return U
        if isinstance(test, ast.Call):
            fname = unparse(test.func)
            if fname == 'isinstance' and len(test.args) == 2:
                return self._type_test(self.ev(test.args[0], env), test.args[1])
            if fname in ('all', 'any') and len(test.args) == 1 and isinstance(test.args[0], (ast.GeneratorExp, ast.ListComp)) \
                    and len(test.args[0].generators) == 1 and not test.args[0].generators[0].ifs:
                gen = test.args[0].generators[0]
                seq = self.ev(gen.iter, env)
                if isinstance(seq, Tup):
                    elems = list(seq.items)
                elif isinstance(seq, Hom):
                    elems = [v for _l, v in seq.distinct()]
                else:
                    return U
                rs = []
                for v in elems:
                    e2 = dict(env)
                    self.bind(gen.target, v, e2)
                    outs = self.branch(test.args[0].elt, e2)
                    if not all(x for _t, _e, x in outs):
                        return U
                    tvs = {tv for tv, _e, _x in outs}
                    rs.append(T if tvs == {True} else F if tvs == {False} else B)
                if fname == 'all':
                    return T if all(r == T for r in rs) else F if F in rs else B
                return T if T in rs else F if all(r == F for r in rs) else B
            if fname == 'bool' and len(test.args) == 1:
                return self.truth(test.args[0], env)
            return U
        v = self.ev(test, env)
        if isinstance(v, Const):
            return T if v.v else F
        if isinstance(v, Int):
            return self._cmp(ast.NotEq(), v, Int(0, 0))
        if isinstance(v, Tup):
            return T if v.items else F
        if isinstance(v, Hom):
            return T if v.n else F
        if isinstance(v, Union_) and all(isinstance(a, (Const, Float)) for a in v.alts):
            return B if any(isinstance(a, Const) and not a.v for a in v.alts) else U
        return U

    @staticmethod
    def _is_none(v):
        if isinstance(v, Const):
            return T if v.v is None else F
        if isinstance(v, (Int, Float, Tup, Hom)):
            return F
        if isinstance(v, Union_):
            rs = {Interp._is_none(a) for a in v.alts}
            return rs.pop() if len(rs) == 1 else (B if None not in rs else None)
        return None

    def _type_test(self, v, tnode, exact_type=False):
        if isinstance(tnode, ast.Tuple):
            rs = [self._type_test(v, t, exact_type) for t in tnode.elts]
            return T if T in rs else U if U in rs else B if B in rs else F
        if isinstance(v, Union_):
            rs = [self._type_test(a, tnode, exact_type) for a in v.alts]
            return U if U in rs else T if all(r == T for r in rs) else F if all(r == F for r in rs) else B
        if isinstance(tnode, ast.Call) and unparse(tnode) == 'type(None)':
            name = 'NoneType'
        elif isinstance(tnode, ast.Name):
            name = tnode.id
        elif isinstance(tnode, ast.Attribute):
            name = tnode.attr
        else:
            return U
        names = _type_names(v)
        if names is None or name not in KNOWN_TYPES:
            return U
        if exact_type:
            own = {Int: 'int', Float: 'float'}.get(type(v)) or (v.kind if isinstance(v, (Tup, Hom)) else
                                                                    'NoneType' if v.v is None else type(v.v).__name__)
            return T if own == name else F
        return T if name in names else F

    @staticmethod
    def _cmp(op, a, b):
        if None in (a.lo, a.hi, b.lo, b.hi):
            return U
        if isinstance(op, ast.Lt):
            return T if a.hi < b.lo else F if a.lo >= b.hi else B
        if isinstance(op, ast.LtE):
            return T if a.hi <= b.lo else F if a.lo > b.hi else B
        if isinstance(op, ast.Gt):
            return T if a.lo > b.hi else F if a.hi <= b.lo else B
        if isinstance(op, ast.GtE):
            return T if a.lo >= b.hi else F if a.hi < b.lo else B
        if isinstance(op, (ast.Eq, ast.Is)):
            return T if a.lo == a.hi == b.lo == b.hi else F if a.hi < b.lo or a.lo > b.hi else B
        if isinstance(op, (ast.NotEq, ast.IsNot)):
            return F if a.lo == a.hi == b.lo == b.hi else T if a.hi < b.lo or a.lo > b.hi else B
        return U

    def assume(self, test, want, env):
        """refine the environment with `test == want`; None when that is infeasible in the interval domain"""
        if isinstance(test, ast.Compare) and len(test.ops) == 1:
            op = test.ops[0]
            l, r = test.left, test.comparators[0]
            a, b = self.ev(l, env), self.ev(r, env)
            if isinstance(a, Int) and isinstance(b, Int) and b.lo is not None and b.lo == b.hi and None not in (a.lo, a.hi):
                return self._refine(l, a, op, b.lo, want, env)
            if isinstance(a, Int) and isinstance(b, Int) and a.lo is not None and a.lo == a.hi and None not in (b.lo, b.hi):
                flip = {ast.Lt: ast.Gt, ast.LtE: ast.GtE, ast.Gt: ast.Lt, ast.GtE: ast.LtE}.get(type(op), type(op))
                return self._refine(r, b, flip(), a.lo, want, env)
            if isinstance(op, (ast.Is, ast.IsNot, ast.Eq, ast.NotEq)) and isinstance(a, Union_) and isinstance(b, Const) and b.v is None:
                is_none = want == isinstance(op, (ast.Is, ast.Eq))
                alts = [x for x in a.alts if (isinstance(x, Const) and x.v is None) == is_none]
                if not alts:
                    return None
                return self._set(l, self._narrow(a, alts), env)
        if isinstance(test, ast.Call) and unparse(test.func) == 'isinstance' and len(test.args) == 2:
            v = self.ev(test.args[0], env)
            if isinstance(v, Union_):
                alts = [x for x in v.alts if (self._type_test(x, test.args[1]) == T) == want]
                if not alts:
                    return None
                return self._set(test.args[0], self._narrow(v, alts), env)
        return env

    @staticmethod
    def _narrow(u, alts):
        if len(alts) != 1:
            return Union_(alts, u.origin)
        a = alts[0]
        c = Const(a.v) if isinstance(a, Const) else Float() if isinstance(a, Float) else a
        if isinstance(c, (Const, Float)):
            c.origin = u.origin
        return c

    def _set(self, node, v, env):
        e2 = dict(env)
        if isinstance(node, ast.Name):
            e2[node.id] = v
        else:
            e2['@' + unparse(node)] = v
        return e2

    def _refine(self, node, a, op, c, want, env):
        lo, hi = a.lo, a.hi
        k = type(op)
        if not want:
            k = {ast.Lt: ast.GtE, ast.LtE: ast.Gt, ast.Gt: ast.LtE, ast.GtE: ast.Lt, ast.Eq: ast.NotEq, ast.NotEq: ast.Eq, ast.Is: ast.IsNot, ast.IsNot: ast.Is}.get(k)
        if k is ast.Lt:
            hi = min(hi, c - 1)
        elif k is ast.LtE:
            hi = min(hi, c)
        elif k is ast.Gt:
            lo = max(lo, c + 1)
        elif k is ast.GtE:
            lo = max(lo, c)
        elif k in (ast.Eq, ast.Is):
            lo, hi = max(lo, c), min(hi, c)
        elif k in (ast.NotEq, ast.IsNot):
            if lo == c:
                lo += 1
            elif hi == c:
                hi -= 1
        else:
            return env
        if lo > hi:
            return None
        return self._set(node, Int(lo, hi, a.origin), env)

    # --------------------------------------------------------------- calls
    def callee(self, call):
        f = call.func
        if isinstance(f, ast.Attribute) and isinstance(f.value, ast.Name) and (f.value.id in ('self', 'cls', self.cls) or f.value.id in self.prog.classes):
            cn = self.cls if f.value.id in ('self', 'cls') else f.value.id
            r = self.prog.resolve(cn, f.attr)
            if r and r[1] is not None:
                return r[1]
        if isinstance(f, ast.Attribute) and unparse(f.value) == 'type(self)':
            r = self.prog.resolve(self.cls, f.attr)
            if r and r[1] is not None:
                return r[1]
        if isinstance(f, ast.Name) and f.id in self.prog.funcs:
            return self.prog.funcs[f.id][1]
        return None

    def ev_call_aware(self, node, env, exact, trail, depth):
        """evaluate an expression statement / right-hand side: [(value, exact, raised Outcome or None)]; helper calls are interpreted in place"""
        if node is None:
            return [(Const(None), exact, None, env)]
        results = [(dict(env), exact)]
        added = set()
        raised = []
        # innermost-first evaluation of program calls; their value is bound under '@<text>' for the outer expression
        def inner_first(n, acc):
            for ch in ast.iter_child_nodes(n):
                inner_first(ch, acc)
            if isinstance(n, ast.Call):
                acc.append(n)
            return acc
        for c in inner_first(node, []):
            fn = self.callee(c)
            if isinstance(c.func, ast.Attribute) and c.func.attr == 'setstate':
                for (e, x) in results:
                    e['#accepts'] = e.get('#accepts', ()) + ((c, self.ev(c.args[0], e) if len(c.args) == 1 and not c.keywords else UNKNOWN),)
                continue
            if fn is None:
                continue
            if depth >= self.MAX_DEPTH or any(isinstance(a, ast.Starred) for a in c.args) or c.keywords:
                results = [(e, False) for (e, _x) in results]
                continue
            nxt = []
            for (e, x) in results:
                args = [self.ev(a, e) for a in c.args]
                for o in self.run(fn, args, depth + 1):
                    tr = trail + [(f'in {fn.name}(): ' + ', '.join(f'{t} is {v}' for t, v in o.trail[-4:]), True)] if o.trail else trail
                    if o.kind == 'raise':
                        raised.append(Outcome('raise', o.node, x and o.exact, tr, accepts=e.get('#accepts', ()) + o.accepts))
                    else:
                        e2 = dict(e)
                        e2['@' + unparse(c)] = o.value if o.kind == 'return' and o.value is not None else Const(None)
                        added.add('@' + unparse(c))
                        e2['#accepts'] = e.get('#accepts', ()) + o.accepts
                        nxt.append((e2, x and o.exact))
            results = nxt
        outs = [(None, False, r, env) for r in raised]
        for (e, x) in results:
            outs.append((self.ev(node, e), x, None, {k: v for k, v in e.items() if k not in added}))
        return outs


def check_accepts(prog, cls, fn, contract=None, what='a state handed out by save_state()'):
    """-> (refusals, stats): refusals = [(raise node, trail text)] reached through exact decisions only"""
    it = Interp(prog, cls)
    it.contract = contract or mt_getstate()
    outs = it.run(fn, [it.contract])
    refusals, undecided = [], 0
    for o in outs:
        if o.kind != 'raise':
            continue
        if o.exact:
            refusals.append((o.node, '; '.join(f'`{t}` is {v}' if not t.startswith(('for ', 'in ')) else t for t, v in o.trail[-5:])))
        else:
            undecided += 1
    accepting = [o for o in outs if o.kind != 'raise']
    stats = {'outcomes': len(outs), 'raises_exact': len(refusals), 'raises_undecided': undecided, 'setstate_calls_reached': sum(len(o.accepts) for o in accepting),
             'accepting_paths': len(accepting)}
    it.outcomes = outs
    return refusals, stats, it
