"""E0: normalisation of constructs the rules were not written against.

The rules of this checker were written against the names that exist in the analysed code base (``baseline.json``: the
module-level names, classes, methods and class-level names of the tree the rules were confirmed on).  A maintainer's
behaviour-preserving clean-up typically introduces *new* names: an extracted private helper, a named constant, a
temporary.  Left alone, such a construct hides the code a rule wants to see (false alarm, or an instance count
below its floor).  This pass rewrites the parsed program -- never the files -- so that new names are expressed in terms
of the known ones.  Every rewrite is semantics preserving under a side condition that is checked; when the side
condition fails the construct is left as it is (the rules then see the raw form).

  N1  new constant (module level or class level, assigned once, never re-bound, initialiser a literal, a tuple of
      names/literals or a pure math expression over literals): every load is replaced by the initialiser.
  N2  new helper function/method (defined once in the program, no decorators except @staticmethod, not recursive,
      plain parameters): calls are beta-reduced.  Expression form when the body is a single `return e`; statement form
      for `h(..)`, `x = h(..)`, `return h(..)` statements, with early returns rewritten into if/else tails.
  N3  new local temporary assigned once to a pure read expression: uses are replaced by the expression when nothing
      between the definition and the use can change its value (no store to a path it reads, no call of unknown code
      unless every attribute it reads is only ever written by constructors).
  N4  `x = a if c else b` / `return a if c else b` become if-statements; `if c: v = a else: v = b; return v` (v a new
      local) becomes returns in the branches.

A rewritten node keeps the source position of the construct it came from, so findings still point at real lines.
"""
from __future__ import annotations

import ast
import copy
import json
import os

BASELINE_PATH = os.path.join(os.path.dirname(os.path.abspath(__file__)), 'baseline.json')

PURE_CALLS = {'math.sqrt', 'math.log', 'math.exp', 'math.pow', 'math.floor', 'math.ceil', 'float', 'int', 'abs', 'len', 'str', 'bool', 'min', 'max',
              'isinstance', 'type', 'math.isnan', 'math.isinf', 'math.isfinite', 'repr', 'tuple', 'list', 'dict', 'set', 'sorted', 'hasattr',
              'range', 'enumerate', 'zip', 'print', 'traceback.print_exc', 'logger.log', 'logger.debug', 'logger.info', 'logger.warning', 'logger.error', 'format'}


PURE_STR_METHODS = {'find', 'rfind', 'index', 'split', 'rsplit', 'partition', 'rpartition', 'startswith', 'endswith', 'strip', 'lstrip', 'rstrip',
                    'lower', 'upper', 'count', 'isdigit'}


INTERPRETED_MODULES = {'statistics', 'distributions', 'utils'}    # analysed by the numeric interpreter (E7), which follows locals itself
OBSERVERS = set()          # method names all of whose definitions only read state (filled per run by observer_methods)
BUILTIN_OBSERVERS = {'copy', 'keys', 'values', 'items', 'get', 'count', 'index', 'find'}


def observer_methods(trees):
    """names of methods / functions whose every definition has no attribute / item store, no delete, no global, and calls only
    pure builtins, str query methods and other such methods (fixpoint)"""
    defs = {}
    for tree in trees.values():
        for fn in ast.walk(tree):
            if isinstance(fn, (ast.FunctionDef, ast.AsyncFunctionDef)):
                defs.setdefault(fn.name, []).append(fn)
    pure = set(defs) | BUILTIN_OBSERVERS
    changed = True
    while changed:
        changed = False
        for name, fns in defs.items():
            if name not in pure:
                continue
            ok = True
            for fn in fns:
                if any(_txt(d) in ('abstractmethod', 'abc.abstractmethod') for d in fn.decorator_list):
                    continue
                for x in _walk_shallow(fn):
                    if isinstance(x, (ast.Attribute, ast.Subscript)) and isinstance(x.ctx, (ast.Store, ast.Del)):
                        ok = False
                    elif isinstance(x, (ast.Global, ast.Nonlocal, ast.Yield, ast.YieldFrom, ast.Await, ast.With)):
                        ok = False
                    elif isinstance(x, ast.Call):
                        f = _txt(x.func)
                        if f in PURE_CALLS:
                            continue
                        if isinstance(x.func, ast.Attribute):
                            if x.func.attr in PURE_STR_METHODS and isinstance(x.func.value, ast.Name):
                                continue
                            if x.func.attr in pure and x.func.attr not in ('append', 'remove', 'pop', 'clear', 'update', 'add', 'insert', 'extend', 'sort'):
                                continue
                        elif isinstance(x.func, ast.Name) and x.func.id in pure and x.func.id in defs:
                            continue
                        elif isinstance(x.func, ast.Name) and (x.func.id.endswith('Error') or x.func.id.endswith('Exception')):
                            continue                      # constructing an exception
                        ok = False
                    if not ok:
                        break
                if not ok:
                    break
            if not ok:
                pure.discard(name)
                changed = True
    # a builtin observer name that the program defines impurely is not an observer
    return {n for n in pure if not (n.startswith('__') and n.endswith('__'))}


def load_baseline():
    with open(BASELINE_PATH) as fh:
        return json.load(fh)


def attr_profiles(modules):
    """attribute / method name -> {where: count}: every `x.<name>` occurrence and every `def <name>` in a class, keyed by the
    enclosing 'module:Class.function' plus the role of the occurrence -- stored (S), called (C), base of a further attribute /
    item access (B), plain load (L) -- or 'module:Class#def' (definitions).  A pure rename keeps the profile; a field replaced by
    an object with fields of its own does not."""
    prof = {}

    def add(name, where):
        d = prof.setdefault(name, {})
        d[where] = d.get(where, 0) + 1

    def scan(root, where):
        for par in ast.walk(root):
            for ch in ast.iter_child_nodes(par):
                if isinstance(ch, ast.Attribute):
                    if isinstance(ch.ctx, (ast.Store, ast.Del)):
                        role = 'S'
                    elif isinstance(par, ast.Call) and par.func is ch:
                        role = 'C'
                    elif isinstance(par, (ast.Attribute, ast.Subscript)) and par.value is ch:
                        role = 'B'
                    else:
                        role = 'L'
                    add(ch.attr, f'{where}:{role}')
        if isinstance(root, ast.Attribute):
            add(root.attr, f'{where}:L')
    for mname, tree in sorted(modules.items()):
        for n in tree.body:
            if isinstance(n, (ast.FunctionDef, ast.AsyncFunctionDef)):
                scan(n, f'{mname}:{n.name}')
            elif isinstance(n, ast.ClassDef):
                for m in n.body:
                    if isinstance(m, (ast.FunctionDef, ast.AsyncFunctionDef)):
                        add(m.name, f'{mname}:{n.name}#def')
                        scan(m, f'{mname}:{n.name}.{m.name}')
                    else:
                        scan(m, f'{mname}:{n.name}#body')
            else:
                scan(n, f'{mname}:#module')
    return prof


def undo_renames(trees, base, log):
    """N0: a private name of the baseline that vanished while a new name with exactly the same usage profile appeared is a rename;
    the new name is mapped back so that the rules see the name they know.  Methods first (their names occur in the profiles of
    fields), then fields."""
    bprof = base.get('__attrs__')
    if not bprof:
        return
    for _round in range(3):
        cur = attr_profiles(trees)
        fresh = [n for n in cur if n not in bprof and n.startswith('_') and not (n.startswith('__') and n.endswith('__'))]
        if not fresh:
            return
        mapping = {}
        for v, bp in bprof.items():
            if not v.startswith('_') or (v.startswith('__') and v.endswith('__')):
                continue
            cp = cur.get(v, {})
            if cp == bp:
                continue
            # the part of the baseline profile that is missing now (a rename inside one class keeps the other classes' uses)
            if any(cp.get(k, 0) > c for k, c in bp.items()) or any(k not in bp for k in cp):
                continue
            missing = {k: c - cp.get(k, 0) for k, c in bp.items() if c - cp.get(k, 0) > 0}
            if not missing:
                continue
            cands = [f for f in fresh if cur[f] == missing and f not in mapping]
            if len(cands) == 1:
                mapping[cands[0]] = v
        if not mapping:
            return
        for tree in trees.values():
            for x in ast.walk(tree):
                if isinstance(x, ast.Attribute) and x.attr in mapping:
                    x.attr = mapping[x.attr]
                elif isinstance(x, (ast.FunctionDef, ast.AsyncFunctionDef)) and x.name in mapping:
                    x.name = mapping[x.name]
        for new, old in sorted(mapping.items()):
            log.append(f'N0 rename {old} -> {new} undone (identical usage profile at {sum(bprof[old].values())} site(s))')


def make_baseline(modules):
    """modules: name -> ast.Module ; returns the name table"""
    out = {'__attrs__': attr_profiles(modules), '__logcalls__': {}}
    for mname, tree in sorted(modules.items()):
        for n in tree.body:
            fns = []
            if isinstance(n, (ast.FunctionDef, ast.AsyncFunctionDef)):
                fns = [(n, None)]
            elif isinstance(n, ast.ClassDef):
                fns = [(m, n.name) for m in n.body if isinstance(m, (ast.FunctionDef, ast.AsyncFunctionDef))]
            for fn, cname in fns:
                calls = [_txt(x.value) for x in ast.walk(fn) if isinstance(x, ast.Expr) and isinstance(x.value, ast.Call)
                         and isinstance(x.value.func, ast.Attribute) and x.value.func.attr in ('debug', 'info', 'warning', 'warn', 'error', 'critical', 'exception', 'log')]
                if calls:
                    out['__logcalls__'][f'{mname}:{cname}.{fn.name}' if cname else f'{mname}:{fn.name}'] = calls
    for mname, tree in sorted(modules.items()):
        ent = {'consts': [], 'funcs': {}, 'classes': {}}
        for n in tree.body:
            if isinstance(n, (ast.Assign, ast.AnnAssign)):
                for t in (n.targets if isinstance(n, ast.Assign) else [n.target]):
                    for x in ast.walk(t):
                        if isinstance(x, ast.Name):
                            ent['consts'].append(x.id)
            elif isinstance(n, (ast.FunctionDef, ast.AsyncFunctionDef)):
                ent['funcs'][n.name] = sorted(_locals_of(n))
            elif isinstance(n, ast.ClassDef):
                c = {'consts': [], 'methods': {}}
                for m in n.body:
                    if isinstance(m, (ast.Assign, ast.AnnAssign)):
                        for t in (m.targets if isinstance(m, ast.Assign) else [m.target]):
                            if isinstance(t, ast.Name):
                                c['consts'].append(t.id)
                    elif isinstance(m, (ast.FunctionDef, ast.AsyncFunctionDef)):
                        c['methods'].setdefault(m.name, [])
                        c['methods'][m.name] = sorted(set(c['methods'][m.name]) | _locals_of(m))
                ent['classes'][n.name] = c
        out[mname] = ent
    return out


def _walk_shallow(node):
    todo = [node]
    first = True
    while todo:
        n = todo.pop()
        if not first and isinstance(n, (ast.FunctionDef, ast.AsyncFunctionDef, ast.ClassDef, ast.Lambda)):
            continue
        first = False
        yield n
        todo.extend(ast.iter_child_nodes(n))


def _locals_of(fn):
    out = {a.arg for a in fn.args.posonlyargs + fn.args.args + fn.args.kwonlyargs}
    if fn.args.vararg:
        out.add(fn.args.vararg.arg)
    if fn.args.kwarg:
        out.add(fn.args.kwarg.arg)
    for n in _walk_shallow(fn):
        if isinstance(n, ast.Name) and isinstance(n.ctx, (ast.Store, ast.Del)):
            out.add(n.id)
        elif isinstance(n, ast.ExceptHandler) and n.name:
            out.add(n.name)
    return out


def _is_doc(st):
    return isinstance(st, ast.Expr) and isinstance(st.value, ast.Constant) and isinstance(st.value.value, str)


def _body(fn):
    return [s for s in fn.body if not _is_doc(s)]


def _txt(n):
    try:
        return ast.unparse(n)
    except Exception:
        return '<?>'


# =================================================================================================== N1 constants
def _pure_const_expr(e):
    if isinstance(e, ast.Constant):
        return True
    if isinstance(e, ast.Tuple):
        return all((isinstance(x, ast.Name) and x.id in ('int', 'float', 'str', 'bool', 'bytes', 'complex')) or
                   (not isinstance(x, ast.Name) and _pure_const_expr(x)) for x in e.elts)
    if isinstance(e, ast.UnaryOp) and isinstance(e.op, (ast.USub, ast.UAdd)):
        return _pure_const_expr(e.operand)
    if isinstance(e, ast.BinOp) and isinstance(e.op, (ast.Add, ast.Sub, ast.Mult, ast.Div, ast.Pow)):
        return _pure_const_expr(e.left) and _pure_const_expr(e.right)
    if isinstance(e, ast.Call) and _txt(e.func) in ('math.sqrt', 'math.log', 'math.exp', 'float', 'int') and not e.keywords:
        return all(_pure_const_expr(a) for a in e.args)
    if isinstance(e, ast.Attribute) and _txt(e) in ('math.pi', 'math.e', 'math.inf', 'math.nan'):
        return True
    if isinstance(e, ast.Attribute) and isinstance(e.value, ast.Name) and e.value.id in ('float', 'int', 'operator', 'math') and (
            e.value.id in ('operator', 'math') or (e.attr.startswith('__') and e.attr.endswith('__'))) and isinstance(e.ctx, ast.Load):
        return True                    # a builtin function / slot wrapper bound to a module-level name: an alias
    return False


class _ReplaceLoads(ast.NodeTransformer):
    """replace loads matched by `match(node) -> replacement expr | None`; does not enter scopes that shadow"""

    def __init__(self, match, shadow_name=None):
        self.match = match
        self.shadow = shadow_name
        self.count = 0

    def _scope(self, node):
        if self.shadow and self.shadow in _locals_of(node):
            return node
        return self.generic_visit(node)

    visit_FunctionDef = _scope
    visit_AsyncFunctionDef = _scope

    def visit_Name(self, node):
        if isinstance(node.ctx, ast.Load):
            r = self.match(node)
            if r is not None:
                self.count += 1
                return ast.copy_location(copy.deepcopy(r), node)
        return node

    def visit_Attribute(self, node):
        if isinstance(node.ctx, ast.Load):
            r = self.match(node)
            if r is not None:
                self.count += 1
                return ast.copy_location(copy.deepcopy(r), node)
        return self.generic_visit(node)


def _single_name_assign(st):
    if isinstance(st, ast.Assign) and len(st.targets) == 1 and isinstance(st.targets[0], ast.Name):
        return st.targets[0].id, st.value
    if isinstance(st, ast.AnnAssign) and isinstance(st.target, ast.Name) and st.value is not None:
        return st.target.id, st.value
    return None, None


def _split_tuple_constants(body):
    """`A, B = 0, 1` (all pure constants) -> `A = 0; B = 1`"""
    out = []
    for st in body:
        if isinstance(st, ast.Assign) and len(st.targets) == 1 and isinstance(st.targets[0], ast.Tuple) and isinstance(st.value, ast.Call) \
                and _txt(st.value.func) == 'range' and len(st.value.args) == 1 and isinstance(st.value.args[0], ast.Constant) \
                and st.value.args[0].value == len(st.targets[0].elts) and all(isinstance(t, ast.Name) for t in st.targets[0].elts):
            for i, t in enumerate(st.targets[0].elts):
                out.append(ast.copy_location(ast.Assign(targets=[ast.Name(id=t.id, ctx=ast.Store())], value=ast.Constant(value=i), lineno=st.lineno), st))
        elif isinstance(st, ast.Assign) and len(st.targets) == 1 and isinstance(st.targets[0], ast.Tuple) and isinstance(st.value, ast.Tuple) \
                and len(st.targets[0].elts) == len(st.value.elts) and all(isinstance(t, ast.Name) for t in st.targets[0].elts) \
                and all(_pure_const_expr(v) for v in st.value.elts):
            for t, v in zip(st.targets[0].elts, st.value.elts):
                out.append(ast.copy_location(ast.Assign(targets=[ast.Name(id=t.id, ctx=ast.Store())], value=v, lineno=st.lineno), st))
        else:
            out.append(st)
    return out


def fold_constants(trees, base, log):
    for tree in trees.values():
        tree.body = _split_tuple_constants(tree.body)
        for n in tree.body:
            if isinstance(n, ast.ClassDef):
                n.body = _split_tuple_constants(n.body)
    # names stored through attributes anywhere (self.X = / Cls.X = / del) -> never folded as class constants
    attr_stores = set()
    name_stores = {}                         # module -> {name: count of stores at any depth}
    globals_decl = set()
    for mname, tree in trees.items():
        cnt = {}
        for n in ast.walk(tree):
            if isinstance(n, ast.Attribute) and isinstance(n.ctx, (ast.Store, ast.Del)):
                attr_stores.add(n.attr)
            elif isinstance(n, (ast.Global, ast.Nonlocal)):
                globals_decl.update(n.names)
        for st in tree.body:
            for x in ast.walk(st) if not isinstance(st, (ast.FunctionDef, ast.AsyncFunctionDef, ast.ClassDef)) else []:
                if isinstance(x, ast.Name) and isinstance(x.ctx, (ast.Store, ast.Del)):
                    cnt[x.id] = cnt.get(x.id, 0) + 1
        name_stores[mname] = cnt
    class_defs = {}
    for mname, tree in trees.items():
        for n in tree.body:
            if isinstance(n, ast.ClassDef):
                class_defs.setdefault(n.name, []).append((mname, n))
    for mname, tree in trees.items():
        b = base.get(mname, {'consts': [], 'funcs': {}, 'classes': {}})
        # ---- module level
        for st in list(tree.body):
            name, val = _single_name_assign(st)
            if name is None or name in b['consts'] or name in globals_decl or name_stores[mname].get(name) != 1 or name.startswith('__'):
                continue
            if not _pure_const_expr(val):
                continue
            imported_elsewhere = any(isinstance(x, ast.ImportFrom) and any(a.name == name for a in x.names) for t in trees.values() for x in ast.walk(t))
            if imported_elsewhere:
                continue
            rep = _ReplaceLoads(lambda node, name=name, val=val: val if isinstance(node, ast.Name) and node.id == name else None, shadow_name=name)
            for other in tree.body:
                if other is not st:
                    rep.visit(other)
            tree.body.remove(st)
            log.append(f'N1 {mname}: module constant {name} = {_txt(val)} folded into {rep.count} use(s)')
        # ---- class level
        for cn in [n for n in tree.body if isinstance(n, ast.ClassDef)]:
            bc = b['classes'].get(cn.name, {'consts': [], 'methods': {}})
            for st in list(cn.body):
                name, val = _single_name_assign(st)
                if name is None or name in bc['consts'] or name in attr_stores or name.startswith('__') or cn.name not in b['classes']:
                    continue
                if not _pure_const_expr(val):
                    continue
                stores = sum(1 for s2 in cn.body for x in ([s2] if isinstance(s2, (ast.Assign, ast.AnnAssign)) else [])
                             for t in (x.targets if isinstance(x, ast.Assign) else [x.target]) if isinstance(t, ast.Name) and t.id == name)
                redefined = any(any(_single_name_assign(s3)[0] == name for s3 in other.body) for (_m, other) in
                                [p for ps in class_defs.values() for p in ps] if other is not cn)
                if stores != 1 or redefined:
                    continue

                def match(node, name=name, val=val):
                    if isinstance(node, ast.Attribute) and node.attr == name:
                        bt = _txt(node.value)
                        if bt in ('self', 'cls', 'type(self)', 'self.__class__') or bt in class_defs:
                            return val
                    return None
                rep = _ReplaceLoads(match)
                for t in trees.values():
                    rep.visit(t)
                # uses inside the class body by bare name (other class-level initialisers)
                rep2 = _ReplaceLoads(lambda node, name=name, val=val: val if isinstance(node, ast.Name) and node.id == name else None)
                for s2 in cn.body:
                    if isinstance(s2, (ast.Assign, ast.AnnAssign)) and s2 is not st:
                        rep2.visit(s2)
                cn.body.remove(st)
                log.append(f'N1 {mname}: class constant {cn.name}.{name} = {_txt(val)} folded into {rep.count + rep2.count} use(s)')


def fold_int_enums(trees, base, log):
    """N1c.  Members of a new IntEnum (values: int literals or auto(), which counts from 1) used as numbers are those numbers:
    `Cls.MEMBER` -> its int, `Cls.MEMBER.value` -> its int, `Cls.MEMBER.name` -> its name.  The class stays when it is used otherwise."""
    for mname, tree in trees.items():
        b = base.get(mname, {'classes': {}})
        for c in list(tree.body):
            if not (isinstance(c, ast.ClassDef) and c.name not in b.get('classes', {}) and any(_txt(x) in ('IntEnum', 'enum.IntEnum') for x in c.bases)):
                continue
            members, nxt, ok = {}, 1, True
            for st in c.body:
                if isinstance(st, ast.Expr) and isinstance(st.value, ast.Constant):
                    continue
                name, val = _single_name_assign(st)
                if name is None:
                    ok = False
                    break
                if isinstance(val, ast.Call) and _txt(val.func) in ('auto', 'enum.auto') and not val.args:
                    members[name] = nxt
                elif isinstance(val, ast.Constant) and isinstance(val.value, int) and not isinstance(val.value, bool):
                    members[name] = val.value
                else:
                    ok = False
                    break
                nxt = members[name] + 1
            if not ok or not members:
                continue
            count = [0]

            class R(ast.NodeTransformer):
                def visit_Attribute(self, node):
                    if isinstance(node.ctx, ast.Load) and node.attr in ('value', 'name') and isinstance(node.value, ast.Attribute) \
                            and isinstance(node.value.value, ast.Name) and node.value.value.id == c.name and node.value.attr in members:
                        count[0] += 1
                        return ast.copy_location(ast.Constant(value=members[node.value.attr] if node.attr == 'value' else node.value.attr), node)
                    if isinstance(node.ctx, ast.Load) and isinstance(node.value, ast.Name) and node.value.id == c.name and node.attr in members:
                        count[0] += 1
                        return ast.copy_location(ast.Constant(value=members[node.attr]), node)
                    return self.generic_visit(node)
            for t2 in trees.values():
                for st in t2.body:
                    if st is not c:
                        R().visit(st)
            still = any(isinstance(x, ast.Name) and x.id == c.name for t2 in trees.values() for st in t2.body if st is not c for x in ast.walk(st))
            if not still:
                tree.body.remove(c)
            log.append(f'N1c {mname}: members of the new IntEnum {c.name} {members} folded into {count[0]} use(s)')


def expand_constant_sets(trees, base, log):
    """N1b.  `X in GROUP` / `X not in GROUP`, GROUP a new module- or class-level constant bound once to a literal collection of enum
    members / constants and used for membership tests only  ->  the chain of `==` the baseline writes.  When GROUP holds more than
    half of the members of one enum and X is a field that only ever holds members of that enum, the chain is written over the
    complement (`not (X == a or X == b)`): over a closed enum both say the same, and it is the form the baseline uses."""
    enums = {}
    for tree in trees.values():
        for c in tree.body:
            if isinstance(c, ast.ClassDef) and any(_txt(b) in ('enum.Enum', 'Enum', 'enum.IntEnum', 'IntEnum') for b in c.bases):
                ms = [t.id for st in c.body if isinstance(st, ast.Assign) for t in st.targets if isinstance(t, ast.Name)]
                enums[c.name] = ms
    if not enums:
        return
    field_vals = {}                                    # attribute name -> set of texts stored
    for tree in trees.values():
        for n in ast.walk(tree):
            if isinstance(n, (ast.Assign, ast.AnnAssign)) and getattr(n, 'value', None) is not None:
                for t in (n.targets if isinstance(n, ast.Assign) else [n.target]):
                    if isinstance(t, ast.Attribute):
                        field_vals.setdefault(t.attr, set()).add(_txt(n.value))
            elif isinstance(n, ast.AugAssign) and isinstance(n.target, ast.Attribute):
                field_vals.setdefault(n.target.attr, set()).add('<aug>')
    props = _property_backing(trees)

    def enum_of_field(x):
        """the enum whose members are the only values ever stored in the field read by x"""
        if not (isinstance(x, ast.Attribute) and _txt(x.value) == 'self'):
            return None
        a = x.attr
        if a in props:
            bk = props[a]
            if len(set(bk)) != 1 or bk[0] is None:
                return None
            a = bk[0]
        vals = field_vals.get(a)
        if not vals:
            return None
        owners = {v.split('.')[0] for v in vals if '.' in v and v.split('.')[0] in enums and v.split('.', 1)[1] in enums[v.split('.')[0]]}
        if len(owners) == 1 and all('.' in v and v.split('.')[0] in owners and v.split('.', 1)[1] in enums[v.split('.')[0]] for v in vals):
            return next(iter(owners))
        return None

    def literal_members(v):
        if isinstance(v, ast.Call) and _txt(v.func) in ('frozenset', 'set', 'tuple', 'list') and len(v.args) == 1 and not v.keywords:
            v = v.args[0]
        if not isinstance(v, (ast.Set, ast.Tuple, ast.List)) or not v.elts or len(v.elts) > 12:
            return None
        for e in v.elts:
            if not ((isinstance(e, ast.Attribute) and isinstance(e.value, ast.Name) and e.value.id in enums and e.attr in enums[e.value.id])
                    or _pure_const_expr(e)):
                return None
        return list(v.elts)

    for mname, tree in trees.items():
        b = base.get(mname, {'consts': [], 'funcs': {}, 'classes': {}})
        scopes = [(None, tree)] + [(c, c) for c in tree.body if isinstance(c, ast.ClassDef)]
        for cls, scope in scopes:
            known = b['consts'] if cls is None else b['classes'].get(cls.name, {'consts': []})['consts']
            for st in list(scope.body):
                name, val = _single_name_assign(st)
                if name is None or name in known or name.startswith('__'):
                    continue
                elts = literal_members(val)
                if elts is None:
                    continue

                def is_ref(x):
                    if cls is None:
                        return isinstance(x, ast.Name) and x.id == name
                    return isinstance(x, ast.Attribute) and x.attr == name and (_txt(x.value) in ('self', 'cls', 'type(self)', 'self.__class__', cls.name))
                refs, member_uses = [], []
                stores = 0
                for t in trees.values():
                    for n in ast.walk(t):
                        if isinstance(n, ast.Name) and n.id == name and isinstance(n.ctx, (ast.Store, ast.Del)):
                            stores += 1
                        elif isinstance(n, ast.Attribute) and n.attr == name and isinstance(n.ctx, (ast.Store, ast.Del)):
                            stores += 2
                        elif isinstance(n, ast.ImportFrom) and any(a.name == name for a in n.names):
                            stores += 2
                        elif isinstance(n, (ast.Name, ast.Attribute)) and isinstance(n.ctx, ast.Load) and is_ref(n) and (cls is not None or t is tree):
                            refs.append(n)
                        if isinstance(n, ast.Compare) and len(n.ops) == 1 and isinstance(n.ops[0], (ast.In, ast.NotIn)) and is_ref(n.comparators[0]) \
                                and (cls is not None or t is tree):
                            member_uses.append(n)
                if stores != 1 or not refs or len(refs) != len(member_uses) or not all(_pure_read(u.left) for u in member_uses):
                    continue
                owners = {e.value.id for e in elts if isinstance(e, ast.Attribute)}
                repl = {}
                for u in member_uses:
                    x = u.left
                    use = elts
                    flip = False
                    if len(owners) == 1 and all(isinstance(e, ast.Attribute) for e in elts):
                        en = next(iter(owners))
                        have = {e.attr for e in elts}
                        if 2 * len(have) > len(enums[en]) and enum_of_field(x) == en:
                            use = [ast.Attribute(value=ast.Name(id=en, ctx=ast.Load()), attr=m, ctx=ast.Load()) for m in enums[en] if m not in have]
                            flip = True
                    negative = isinstance(u.ops[0], ast.NotIn) != flip
                    if not use:
                        new = ast.Constant(value=not negative)
                    else:
                        cmps = [ast.Compare(left=copy.deepcopy(x), ops=[ast.NotEq() if negative else ast.Eq()], comparators=[copy.deepcopy(e)]) for e in use]
                        new = cmps[0] if len(cmps) == 1 else ast.BoolOp(op=ast.And() if negative else ast.Or(), values=cmps)
                    ast.copy_location(new, u)
                    repl[id(u)] = new
                if repl:
                    class _R(ast.NodeTransformer):
                        def visit_Compare(self, node):
                            self.generic_visit(node)
                            return repl.get(id(node), node)
                    for t in trees.values():
                        _R().visit(t)
                scope.body.remove(st)
                log.append(f'N1b {mname}: membership in constant group {name} ({len(elts)} members) expanded in {len(member_uses)} test(s)')


def instantiate_method_factories(trees, base, log):
    """N2f.  `name = factory(c1, ..)` in a class body, `factory` a new module-level function that only defines one inner function (or a
    lambda) over its parameters and returns it, the arguments constants or dotted names  ->  the inner function as a method `name`
    with the parameters replaced by the arguments.  A closure over never re-bound parameters is the same function."""
    for mname, tree in trees.items():
        b = base.get(mname, {'consts': [], 'funcs': {}, 'classes': {}})
        factories = {}
        for fn in tree.body:
            if not isinstance(fn, ast.FunctionDef) or fn.name in b['funcs'] or fn.decorator_list:
                continue
            a = fn.args
            if a.vararg or a.kwarg or a.kwonlyargs or a.posonlyargs:
                continue
            body = _body(fn)
            inner = None
            if len(body) == 2 and isinstance(body[0], ast.FunctionDef) and isinstance(body[1], ast.Return) and isinstance(body[1].value, ast.Name) \
                    and body[1].value.id == body[0].name and not body[0].decorator_list:
                inner = body[0]
            elif len(body) == 1 and isinstance(body[0], ast.Return) and isinstance(body[0].value, ast.Lambda):
                lam = body[0].value
                inner = ast.FunctionDef(name='<lambda>', args=lam.args, body=[ast.Return(value=lam.body)], decorator_list=[], returns=None, type_comment=None,
                                        type_params=[])
                ast.copy_location(inner, lam)
                ast.copy_location(inner.body[0], lam)
            if inner is None and len(body) == 1 and isinstance(body[0], ast.Return) and body[0].value is not None \
                    and isinstance(body[0].value, ast.Call) and _txt(body[0].value.func) == 'property':
                inner = body[0].value                 # an expression factory: `return property(...)`
            if inner is None:
                continue
            params = [x.arg for x in a.args]
            # the parameters are never re-bound inside (neither in the factory nor in the inner function), no nonlocal
            rebound = any((isinstance(x, ast.Name) and isinstance(x.ctx, (ast.Store, ast.Del)) and x.id in params) or isinstance(x, (ast.Nonlocal, ast.Global))
                          for x in ast.walk(inner)) or (not isinstance(inner, ast.Call) and any(x.arg in params for x in ast.walk(inner.args) if isinstance(x, ast.arg)))
            if rebound:
                continue
            factories[fn.name] = (fn, inner, params, a.defaults)
        if not factories:
            continue
        used = {k: 0 for k in factories}
        for c in [c for c in tree.body if isinstance(c, ast.ClassDef)]:
            for i, st in enumerate(list(c.body)):
                name, val = _single_name_assign(st)
                if name is None or not (isinstance(val, ast.Call) and isinstance(val.func, ast.Name) and val.func.id in factories):
                    continue
                fn, inner, params, defaults = factories[val.func.id]
                if val.keywords and any(k.arg is None for k in val.keywords):
                    continue
                m = {}
                ok = len(val.args) <= len(params)
                for p, arg in zip(params, val.args):
                    m[p] = arg
                for k in val.keywords:
                    if k.arg in params and k.arg not in m:
                        m[k.arg] = k.value
                    else:
                        ok = False
                for p, d in zip(params[len(params) - len(defaults):], defaults):
                    m.setdefault(p, d)
                if not ok or set(m) != set(params):
                    continue
                if not all(isinstance(v, ast.Constant) or (_pure_read(v) and all(isinstance(x, (ast.Name, ast.Attribute, ast.Load)) for x in ast.walk(v)))
                           for v in m.values()):
                    continue
                if isinstance(inner, ast.Call):
                    st.value = ast.copy_location(_Subst(m, {}).visit(copy.deepcopy(inner)), st.value)
                    ast.fix_missing_locations(st)
                    used[val.func.id] += 1
                    log.append(f'N2f {mname}: {c.name}.{name} = {val.func.id}(..) replaced by the expression the factory returns')
                    continue
                meth = copy.deepcopy(inner)
                meth.name = name
                meth = _Subst(m, {}).visit(meth)
                ast.copy_location(meth, st)
                c.body[c.body.index(st)] = meth
                used[val.func.id] += 1
                log.append(f'N2f {mname}: {c.name}.{name} = {val.func.id}({", ".join(_txt(x) for x in val.args)}) instantiated as a method')
        for k, n in used.items():
            if n:
                still = any(isinstance(x, ast.Name) and x.id == k and isinstance(x.ctx, ast.Load) for t in trees.values() for x in ast.walk(t))
                if not still:
                    tree.body.remove(factories[k][0])


def property_objects_to_methods(trees, log):
    """`name = property(attrgetter('a.b'))` / `property(lambda self: E)` in a class body  ->  `@property def name(self): return self.a.b` / `E`."""
    def const_str(e):
        if isinstance(e, ast.Constant) and isinstance(e.value, str):
            return e.value
        if isinstance(e, ast.BinOp) and isinstance(e.op, ast.Add):
            l, r = const_str(e.left), const_str(e.right)
            return None if l is None or r is None else l + r
        return None
    n = 0
    for tree in trees.values():
        for c in [c for c in tree.body if isinstance(c, ast.ClassDef)]:
            for st in list(c.body):
                name, val = _single_name_assign(st)
                if name is None or not (isinstance(val, ast.Call) and _txt(val.func) == 'property' and len(val.args) == 1
                                        and all(k.arg == 'doc' for k in val.keywords)):
                    continue
                fget = val.args[0]
                ret = None
                if isinstance(fget, ast.Call) and _txt(fget.func) in ('attrgetter', 'operator.attrgetter') and len(fget.args) == 1 and not fget.keywords:
                    path = const_str(fget.args[0])
                    if path and all(p.isidentifier() for p in path.split('.')):
                        ret = ast.Name(id='self', ctx=ast.Load())
                        for p in path.split('.'):
                            ret = ast.Attribute(value=ret, attr=p, ctx=ast.Load())
                elif isinstance(fget, ast.Lambda) and len(fget.args.args) == 1 and not fget.args.defaults:
                    ret = _Subst({fget.args.args[0].arg: ast.Name(id='self', ctx=ast.Load())}, {}).visit(copy.deepcopy(fget.body))
                if ret is None:
                    continue
                fn = ast.FunctionDef(name=name, args=ast.arguments(posonlyargs=[], args=[ast.arg(arg='self')], kwonlyargs=[], kw_defaults=[], defaults=[]),
                                     body=[ast.Return(value=ret)], decorator_list=[ast.Name(id='property', ctx=ast.Load())], returns=None, type_comment=None,
                                     type_params=[])
                ast.copy_location(fn, st)
                ast.fix_missing_locations(fn)
                c.body[c.body.index(st)] = fn
                n += 1
    if n:
        log.append(f'N2f {n} property object(s) built from attrgetter / lambda written as property methods')


# =================================================================================================== N2 helpers
class _Subst(ast.NodeTransformer):
    def __init__(self, mapping, rename):
        self.mapping = mapping        # param -> expr
        self.rename = rename          # local -> new name

    def visit_Name(self, node):
        if node.id in self.mapping and isinstance(node.ctx, ast.Load):
            return ast.copy_location(copy.deepcopy(self.mapping[node.id]), node)
        if node.id in self.rename:
            return ast.copy_location(ast.Name(id=self.rename[node.id], ctx=node.ctx), node)
        return node

    def visit_ExceptHandler(self, node):
        if node.name and node.name in self.rename:
            node.name = self.rename[node.name]
        return self.generic_visit(node)

    def visit_Lambda(self, node):
        return node


def _atomic(e):
    if isinstance(e, (ast.Name, ast.Constant)):
        return True
    if isinstance(e, ast.Attribute):
        return _atomic(e.value)
    return False


def _terminates(stmts):
    if not stmts:
        return False
    last = stmts[-1]
    if isinstance(last, (ast.Return, ast.Raise)):
        return True
    if isinstance(last, ast.If):
        return _terminates(last.body) and _terminates(last.orelse)
    return False


def _has_return(st):
    return any(isinstance(x, ast.Return) for x in _walk_shallow(st))


class _NotInlinable(Exception):
    pass


def _to_tail(stmts):
    """rewrite so that every Return is in tail position (duplicating the continuation into if-branches)"""
    out = []
    for i, st in enumerate(stmts):
        if isinstance(st, (ast.Return, ast.Raise)):
            out.append(st)
            return out
        if not _has_return(st):
            out.append(st)
            continue
        rest = stmts[i + 1:]
        if isinstance(st, ast.If):
            new = ast.copy_location(ast.If(test=st.test, body=_to_tail(list(st.body) + copy.deepcopy(rest)),
                                           orelse=_to_tail(list(st.orelse) + copy.deepcopy(rest))), st)
            if not new.body:
                new.body = [ast.copy_location(ast.Pass(), st)]
            out.append(new)
            return out
        raise _NotInlinable('return inside a loop / try / with')
    return out


def _replace_tail(stmts, k, at_end):
    """apply k(value expr|None, return node) -> [stmts] to every tail return; at_end() -> [stmts] appended where control falls off"""
    if not stmts:
        return at_end()
    out = list(stmts[:-1])
    last = stmts[-1]
    if isinstance(last, ast.Return):
        out.extend(k(last.value, last))
    elif isinstance(last, ast.Raise):
        out.append(last)
    elif isinstance(last, ast.If) and (_has_return(last)):
        new = ast.copy_location(ast.If(test=last.test, body=_replace_tail(list(last.body), k, at_end) or [ast.copy_location(ast.Pass(), last)],
                                       orelse=_replace_tail(list(last.orelse), k, at_end)), last)
        out.append(new)
    else:
        out.append(last)
        out.extend(at_end())
    return out


class _Helper:
    def __init__(self, name, fn, cls, mname, static):
        self.name, self.fn, self.cls, self.mname, self.static = name, fn, cls, mname, static
        self.classmethod = static == 'cls'
        a = fn.args
        self.params = [x.arg for x in a.posonlyargs + a.args]
        self.posonly = {x.arg for x in a.posonlyargs}
        self.defaults = {}
        for p, d in zip(reversed(self.params), reversed(a.defaults)):
            self.defaults[p] = d
        self.kwonly = [x.arg for x in a.kwonlyargs]
        for p, d in zip(a.kwonlyargs, a.kw_defaults):
            if d is not None:
                self.defaults[p.arg] = d
        self.vararg = a.vararg.arg if a.vararg else None
        if cls is not None and (not static or static == 'cls'):
            self.params = self.params[1:]
        body = _body(fn)
        self.expr = body[0].value if len(body) == 1 and isinstance(body[0], ast.Return) and body[0].value is not None else None
        self.stored = {n.id for n in _walk_shallow(fn) if isinstance(n, ast.Name) and isinstance(n.ctx, (ast.Store, ast.Del))}
        self.locals = _locals_of(fn) - set(x.arg for x in a.args)


def _eligible_helper(fn, cls):
    a = fn.args
    if a.kwarg:
        return None
    if a.vararg:
        # *rest is supported when the body only iterates over it
        uses = [x for x in ast.walk(fn) if isinstance(x, ast.Name) and x.id == a.vararg.arg]
        loops = [x for x in ast.walk(fn) if isinstance(x, ast.For) and isinstance(x.iter, ast.Name) and x.iter.id == a.vararg.arg]
        if len(uses) != len(loops) or not loops:
            return None
    decos = [_txt(d) for d in fn.decorator_list]
    static = decos == ['staticmethod']
    if decos == ['classmethod'] and a.args and a.args[0].arg == 'cls':
        return 'cls'
    if decos and not static:
        return None
    if isinstance(fn, ast.AsyncFunctionDef):
        return None
    for n in ast.walk(fn):
        if isinstance(n, (ast.Yield, ast.YieldFrom, ast.Await, ast.Global, ast.Nonlocal)):
            return None
        if n is not fn and isinstance(n, (ast.FunctionDef, ast.AsyncFunctionDef, ast.ClassDef)):
            return None
    if cls is not None and not static and (not a.args or a.args[0].arg != 'self'):
        return None
    if fn.name.startswith('__') and fn.name.endswith('__'):
        return None
    # recursion
    for n in ast.walk(fn):
        if isinstance(n, ast.Call):
            f = n.func
            if (isinstance(f, ast.Attribute) and f.attr == fn.name) or (isinstance(f, ast.Name) and f.id == fn.name):
                return None
    return static


def _bind(h, call):
    """param -> arg expr, or None when the call does not match the signature"""
    args = list(call.args)
    if any(isinstance(a, ast.Starred) for a in args) or any(k.arg is None for k in call.keywords):
        return None
    m = {}
    if len(args) > len(h.params):
        if not getattr(h, 'vararg', None) or not all(_atomic(a) for a in args[len(h.params):]):
            return None
        rest = ast.Tuple(elts=args[len(h.params):], ctx=ast.Load())
        rest._pdsa_from_vararg = True
        m[h.vararg] = rest
    elif getattr(h, 'vararg', None):
        rest = ast.Tuple(elts=[], ctx=ast.Load())
        rest._pdsa_from_vararg = True
        m[h.vararg] = rest
    for p, a in zip(h.params, args):
        m[p] = a
    for k in call.keywords:
        if (k.arg not in h.params and k.arg not in getattr(h, 'kwonly', ())) or k.arg in m or k.arg in getattr(h, 'posonly', ()):
            return None
        m[k.arg] = k.value
    for p in h.params + list(getattr(h, 'kwonly', ())):
        if p not in m:
            if p in h.defaults:
                m[p] = h.defaults[p]
            else:
                return None
    return m


def _single_early_load(body, p):
    """p is loaded exactly once in the helper and that load is evaluated by the first statement (its own expressions)"""
    total = sum(1 for st in body for x in ast.walk(st) if isinstance(x, ast.Name) and x.id == p and isinstance(x.ctx, ast.Load))
    if total != 1:
        return False
    first = body[0]
    if isinstance(first, (ast.For, ast.While, ast.Try, ast.With)):
        return False
    own = [first.test] if isinstance(first, ast.If) else [first]
    return any(isinstance(x, ast.Name) and x.id == p for e in own for x in ast.walk(e))


_HELPER_NAMES = set()       # names of the helpers the inliner is working on (a helper that only reads state still has refusals to hoist)


def _has_helper_call(e):
    return bool(_HELPER_NAMES) and any(isinstance(x, ast.Call) and (x.func.attr if isinstance(x.func, ast.Attribute) else
                                                                    x.func.id if isinstance(x.func, ast.Name) else None) in _HELPER_NAMES for x in ast.walk(e))


def _first_call(e):
    """the call whose evaluation completes first when e is evaluated (left-most, inner-most), or None if e contains no call
    on its first-evaluated spine"""
    if e is None or isinstance(e, (ast.Name, ast.Constant)):
        return None
    if isinstance(e, ast.Call) and isinstance(e.func, ast.Name) and e.func.id in ('float', 'int', 'bool', 'str', 'len', 'abs', 'type', 'isinstance') \
            and not e.keywords and all(_atomic(a) for a in e.args):
        return None                           # a conversion / query of a plain name leaves nothing behind: not the "first call"
    if isinstance(e, ast.Call):
        if isinstance(e.func, ast.Attribute):
            r = _first_call(e.func.value)
            if r is not None:
                return r
        elif not isinstance(e.func, ast.Name):
            return None
        for a in list(e.args) + [k.value for k in e.keywords]:
            if isinstance(a, ast.Starred):
                return None
            if (_atomic(a) or _pure_read(a)) and not _has_helper_call(a):
                continue                      # reads (incl. state-reading accessor chains) leave nothing behind: the call itself is the first action
            r = _first_call(a)
            if r is not None:
                return r
            return None
        return e
    if isinstance(e, ast.Attribute):
        return _first_call(e.value)
    if isinstance(e, ast.Subscript):
        return _first_call(e.value) or (_first_call(e.slice) if _atomic(e.value) else None)
    if isinstance(e, ast.BinOp):
        return _first_call(e.left) or (_first_call(e.right) if _atomic(e.left) or _pure_read(e.left) else None)
    if isinstance(e, ast.Compare):
        return _first_call(e.left) or (_first_call(e.comparators[0]) if _atomic(e.left) or _pure_read(e.left) else None)
    if isinstance(e, ast.UnaryOp):
        return _first_call(e.operand)
    if isinstance(e, ast.BoolOp):
        return _first_call(e.values[0])
    if isinstance(e, ast.IfExp):
        return _first_call(e.test)
    return None


def _first_evaluated_call(st):
    """the call evaluated first by a simple statement, an if-test or a for-iterable (left-most / inner-most evaluation order), or None"""
    if isinstance(st, (ast.Expr, ast.Return)):
        e = st.value
    elif isinstance(st, ast.If):
        e = st.test
    elif isinstance(st, ast.For):
        e = st.iter
    elif isinstance(st, (ast.Assign, ast.AnnAssign, ast.AugAssign)):
        if isinstance(st, ast.AugAssign) and not isinstance(st.target, ast.Name):
            return None
        e = st.value
    else:
        return None
    return _first_call(e)


def _num_literal(e):
    if isinstance(e, ast.Constant) and isinstance(e.value, (int, float)) and not isinstance(e.value, bool):
        return e.value
    if isinstance(e, ast.UnaryOp) and isinstance(e.op, (ast.USub, ast.UAdd)):
        v = _num_literal(e.operand)
        if v is not None:
            return -v if isinstance(e.op, ast.USub) else v
    return None


NON_NONE_CLASS_CONSTANTS = set()      # 'Class.NAME' bound once in the class body to a literal that is not None (filled by run)


def _const_truth(e):
    """True / False / None for a test expression that is a literal (possibly negated) or a comparison of numeric literals"""
    if isinstance(e, ast.Constant) and (e.value is None or isinstance(e.value, (bool, int, float, str))):
        return bool(e.value)
    if isinstance(e, ast.Compare) and len(e.ops) == 1:
        a, b = _num_literal(e.left), _num_literal(e.comparators[0])
        if a is not None and b is not None:
            import operator as _op
            f = {ast.Eq: _op.eq, ast.NotEq: _op.ne, ast.Lt: _op.lt, ast.LtE: _op.le, ast.Gt: _op.gt, ast.GtE: _op.ge}.get(type(e.ops[0]))
            if f is not None:
                return bool(f(a, b))
    if isinstance(e, ast.Compare) and len(e.ops) == 1 and isinstance(e.ops[0], (ast.Is, ast.IsNot, ast.Eq, ast.NotEq)):
        l, r = e.left, e.comparators[0]
        if isinstance(l, ast.Constant) and l.value is None:
            l, r = r, l
        if isinstance(r, ast.Constant) and r.value is None:
            isnone = None
            if isinstance(l, ast.Constant):
                isnone = l.value is None
            elif isinstance(l, ast.Attribute) and _txt(l) in NON_NONE_CLASS_CONSTANTS:
                isnone = False
            if isnone is not None:
                return isnone if isinstance(e.ops[0], (ast.Is, ast.Eq)) else (not isnone)
    if isinstance(e, ast.UnaryOp) and isinstance(e.op, ast.Not):
        t = _const_truth(e.operand)
        return None if t is None else (not t)
    if isinstance(e, ast.BoolOp):
        # short circuit: operands are decided from the left; the first undecided one ends the folding
        for v in e.values:
            t = _const_truth(v)
            if t is None:
                return None
            if t is (not isinstance(e.op, ast.And)):
                return t                      # False ends an `and`, True ends an `or`
        return isinstance(e.op, ast.And)
    if isinstance(e, (ast.List, ast.Tuple, ast.Dict)) and not (e.elts if not isinstance(e, ast.Dict) else e.keys):
        return False
    return None


def _simplify_block(stmts):
    """fold `if <literal>`; `if not c: pass else: X` -> `if c: X`; drop `pass` from non-empty blocks; cut dead code after return/raise"""
    out = []
    for st in stmts:
        if isinstance(st, ast.If):
            st.body = _simplify_block(st.body)
            st.orelse = _simplify_block(st.orelse)
            t = _const_truth(st.test)
            if t is True:
                out.extend(st.body)
            elif t is False:
                out.extend(st.orelse)
            else:
                body_empty = all(isinstance(x, ast.Pass) for x in st.body)
                if body_empty and st.orelse and isinstance(st.test, ast.UnaryOp) and isinstance(st.test.op, ast.Not):
                    out.append(ast.copy_location(ast.If(test=st.test.operand, body=st.orelse, orelse=[]), st))
                elif body_empty and not st.orelse:
                    # the test may have side effects only if it contains a call; keep it then
                    if any(isinstance(x, ast.Call) for x in ast.walk(st.test)):
                        st.body = [ast.copy_location(ast.Pass(), st)]
                        out.append(st)
                else:
                    if not st.body:
                        st.body = [ast.copy_location(ast.Pass(), st)]
                    out.append(st)
        elif isinstance(st, ast.For) and _const_truth(st.iter) is False and not st.orelse:
            continue                                    # a loop over an empty literal
        elif isinstance(st, (ast.For, ast.While, ast.With, ast.Try)):
            for field in ('body', 'orelse', 'finalbody'):
                v = getattr(st, field, None)
                if isinstance(v, list) and v:
                    setattr(st, field, _simplify_block(v) or ([ast.copy_location(ast.Pass(), st)] if field == 'body' else []))
            if isinstance(st, ast.Try):
                for hd in st.handlers:
                    hd.body = _simplify_block(hd.body) or [ast.copy_location(ast.Pass(), st)]
            out.append(st)
        elif isinstance(st, ast.Pass):
            continue
        elif isinstance(st, ast.Assign) and len(st.targets) == 1 and isinstance(st.targets[0], ast.Tuple) and isinstance(st.value, ast.Tuple) \
                and len(st.targets[0].elts) == len(st.value.elts) and all(isinstance(t, ast.Name) for t in st.targets[0].elts) \
                and not ({t.id for t in st.targets[0].elts} & {x.id for v in st.value.elts for x in ast.walk(v) if isinstance(x, ast.Name)}):
            # a, b = (x, y) with right-hand sides that do not read the targets: same order of evaluation
            for t, v in zip(st.targets[0].elts, st.value.elts):
                out.append(ast.copy_location(ast.Assign(targets=[ast.Name(id=t.id, ctx=ast.Store())], value=v, lineno=st.lineno), st))
        else:
            out.append(st)
        if out and isinstance(out[-1], (ast.Return, ast.Raise, ast.Break, ast.Continue)):
            break
    return out


class _Inliner:
    def __init__(self, helpers, class_of_fn, subclasses, log):
        self.helpers = helpers          # name -> _Helper
        self.class_of_fn = class_of_fn
        self.subclasses = subclasses    # class -> set of subclasses incl. itself
        self.log = log
        self.counter = 0
        self.inlined = {}               # helper name -> count
        self.failed = set()

    def _match(self, call, cur_cls):
        """_Helper for a call node or None"""
        f = call.func
        if isinstance(f, ast.Attribute) and f.attr in self.helpers:
            h = self.helpers[f.attr]
            if h.cls is None:
                return None
            bt = _txt(f.value)
            if bt == 'self' and cur_cls in self.subclasses.get(h.cls, ()):
                return h
            if not h.static and isinstance(f.value, ast.Name) and bt not in ('self', 'cls', 'super') and bt not in self.subclasses:
                return h                      # x.helper(..) on another object: the helper's name is unique in the program
            if not h.static and isinstance(f.value, ast.Attribute) and _atomic(f.value) and bt.startswith('self.') \
                    and cur_cls not in self.subclasses.get(h.cls, ()):
                return h                      # self.part.helper(..): a method of the object kept in a field
            if h.static and (bt == h.cls or (bt in ('cls', 'type(self)') and cur_cls in self.subclasses.get(h.cls, ()))):
                return h
            if h.classmethod and bt == 'self' and cur_cls in self.subclasses.get(h.cls, ()):
                return h
            return None
        if isinstance(f, ast.Name) and f.id in self.helpers and self.helpers[f.id].cls is None:
            return self.helpers[f.id]
        return None

    # ---- expression form
    def inline_exprs(self, fn, cur_cls):
        me = self

        class T(ast.NodeTransformer):
            def visit_Call(self, node):
                self.generic_visit(node)
                h = me._match(node, cur_cls)
                if h is None or h.expr is None or h.fn is fn:
                    return node
                m = _bind(h, node)
                if m is None:
                    return node
                if h.cls is not None and not h.static and isinstance(node.func, ast.Attribute) and _txt(node.func.value) != 'self':
                    m = dict(m)
                    m['self'] = node.func.value
                if h.classmethod and isinstance(node.func, ast.Attribute) and _txt(node.func.value) != 'cls':
                    m = dict(m)
                    bt = _txt(node.func.value)
                    m['cls'] = ast.Call(func=ast.Name(id='type', ctx=ast.Load()), args=[ast.Name(id='self', ctx=ast.Load())], keywords=[]) if bt == 'self' \
                        else node.func.value
                uses = {}
                for x in ast.walk(h.expr):
                    if isinstance(x, ast.Name) and x.id in m:
                        uses[x.id] = uses.get(x.id, 0) + 1
                if any(uses.get(p, 0) > 1 and not _atomic(a) for p, a in m.items()):
                    return node
                if any(uses.get(p, 0) == 0 and not _atomic(a) for p, a in m.items()):
                    return node                                         # would drop an evaluation
                new = _Subst(m, {}).visit(copy.deepcopy(h.expr))
                me.inlined[h.name] = me.inlined.get(h.name, 0) + 1
                return ast.copy_location(new, node)

            def visit_Lambda(self, node):
                return node
        for i, st in enumerate(fn.body):
            fn.body[i] = T().visit(st)

    # ---- statement form
    def _expand(self, st, fn, cur_cls):
        """list of statements replacing st, or None"""
        call = target = None
        form = None
        if isinstance(st, ast.Expr) and isinstance(st.value, ast.Call):
            call, form = st.value, 'expr'
        elif isinstance(st, ast.Assign) and len(st.targets) == 1 and isinstance(st.value, ast.Call):
            call, form, target = st.value, 'assign', st.targets[0]
        elif isinstance(st, ast.AnnAssign) and st.value is not None and isinstance(st.value, ast.Call):
            call, form, target = st.value, 'assign', st.target
        elif isinstance(st, ast.Return) and isinstance(st.value, ast.Call):
            call, form = st.value, 'return'
        if call is not None and (self._match(call, cur_cls) is None):
            call = None
        cont = None
        if call is None:
            # a helper call nested in the statement that is evaluated before anything else: the rest of the statement becomes the
            # continuation of every `return` of the helper (the value is substituted where the call stood)
            fc = _first_evaluated_call(st)
            if fc is None or fc is getattr(st, 'value', None):
                return None
            h0 = self._match(fc, cur_cls)
            if h0 is None or h0.fn is fn or h0.expr is not None:
                return None
            if not all(_atomic(a) or _pure_read(a) for a in list(fc.args) + [k.value for k in fc.keywords]):
                return None
            call, form, cont = fc, 'cont', st
        h = self._match(call, cur_cls)
        if h is None or h.fn is fn:
            return None
        m = _bind(h, call)
        if m is None:
            return None
        self.counter += 1
        tag = f'__{h.name.strip("_")}{self.counter}'
        pre = []
        mapping = {}
        taken = _locals_of(fn)
        rename = {loc: (loc + tag if loc in taken else loc) for loc in h.locals}      # keep the helper's names unless they clash
        if h.cls is not None and not h.static and isinstance(call.func, ast.Attribute) and _txt(call.func.value) != 'self':
            mapping['self'] = call.func.value
        if h.classmethod and isinstance(call.func, ast.Attribute):
            bt = _txt(call.func.value)
            if bt == 'self':
                mapping['cls'] = ast.Call(func=ast.Name(id='type', ctx=ast.Load()), args=[ast.Name(id='self', ctx=ast.Load())], keywords=[])
            elif bt != 'cls':
                mapping['cls'] = call.func.value
        all_params = h.params + list(getattr(h, 'kwonly', ())) + ([h.vararg] if getattr(h, 'vararg', None) else [])
        nonatomic = [p for p in all_params if not _atomic(m[p]) and not getattr(m[p], '_pdsa_from_vararg', False)]
        hbody = _body(h.fn)
        for p in all_params:
            a = m[p]
            if getattr(a, '_pdsa_from_vararg', False) and p not in h.stored:
                mapping[p] = a                # the tuple of extra positional arguments (atomic elements): only iterated over
            elif _atomic(a) and p not in h.stored:
                mapping[p] = a
            elif len(nonatomic) == 1 and p not in h.stored and hbody and _single_early_load(hbody, p):
                mapping[p] = a                # evaluated once, first thing in the helper: same order of evaluation
            else:
                rename[p] = p + tag if p in taken else p
                pre.append(ast.copy_location(ast.Assign(targets=[ast.Name(id=rename[p], ctx=ast.Store())], value=copy.deepcopy(a), lineno=st.lineno), st))
        # `x = h(..)` where the helper returns one of its own locals on every path: that local *is* x
        unified = False
        if form == 'assign' and isinstance(target, ast.Name):
            rets = [r for r in _walk_shallow(h.fn) if isinstance(r, ast.Return)]
            names = {r.value.id for r in rets if isinstance(r.value, ast.Name)}
            if rets and len(names) == 1 and all(isinstance(r.value, ast.Name) or (isinstance(r.value, ast.Constant) or r.value is None) for r in rets):
                r0 = next(iter(names))
                if r0 in h.locals and r0 not in h.params and _terminates(hbody) and (target.id == r0 or target.id not in h.locals):
                    rename[r0] = target.id
                    unified = True
        body = copy.deepcopy(hbody)
        sub = _Subst(mapping, rename)
        body = [sub.visit(s) for s in body]
        try:
            if form == 'return':
                if not _terminates(body):
                    body = body + [ast.copy_location(ast.Return(value=None), st)]
                new = body
            else:
                body = _to_tail(body)
                if form == 'expr':
                    def k(v, node):
                        if v is None or isinstance(v, (ast.Name, ast.Constant)) or _atomic(v):
                            return []
                        return [ast.copy_location(ast.Expr(value=v), node)]
                    new = _replace_tail(body, k, lambda: [])
                elif form == 'assign':
                    def k(v, node, target=target):
                        if unified and isinstance(v, ast.Name) and v.id == target.id:
                            return []
                        return [ast.copy_location(ast.Assign(targets=[copy.deepcopy(target)], value=v if v is not None else ast.Constant(value=None),
                                                             lineno=node.lineno), node)]
                    new = _replace_tail(body, k, lambda: [ast.copy_location(ast.Assign(targets=[copy.deepcopy(target)], value=ast.Constant(value=None),
                                                                                      lineno=st.lineno), st)])
                else:
                    hole = call

                    def fill(v):
                        class R(ast.NodeTransformer):
                            def visit_Call(self, node):
                                if node is hole:
                                    return ast.copy_location(copy.deepcopy(v) if v is not None else ast.Constant(value=None), node)
                                return self.generic_visit(node)
                        # deepcopy loses identity of `hole`: mark it first
                        hole._pdsa_hole = True
                        c2 = copy.deepcopy(cont)
                        del hole._pdsa_hole

                        class R2(ast.NodeTransformer):
                            def visit_Call(self, node):
                                if getattr(node, '_pdsa_hole', False):
                                    return ast.copy_location(copy.deepcopy(v) if v is not None else ast.Constant(value=None), node)
                                return self.generic_visit(node)
                        c2 = R2().visit(c2)
                        return _simplify_block([c2])
                    new = _replace_tail(body, lambda v, node: fill(v), lambda: fill(None))
        except _NotInlinable:
            self.failed.add(h.name)
            return None
        new = _simplify_block(pre + new)
        if not new:
            new = [ast.copy_location(ast.Pass(), st)]
        for s_ in new:
            ast.fix_missing_locations(s_)
        self.inlined[h.name] = self.inlined.get(h.name, 0) + 1
        return new

    def inline_stmts(self, fn, cur_cls):
        changed = False
        global _HELPER_NAMES
        _HELPER_NAMES = {n for n, h in self.helpers.items() if h.expr is None}

        def block(stmts):
            nonlocal changed
            out = []
            for st in stmts:
                rep = self._expand(st, fn, cur_cls)
                if rep is not None:
                    changed = True
                    out.extend(rep)
                    continue
                for field in ('body', 'orelse', 'finalbody'):
                    if hasattr(st, field) and isinstance(getattr(st, field), list) and not isinstance(st, (ast.FunctionDef, ast.AsyncFunctionDef, ast.ClassDef)):
                        setattr(st, field, block(getattr(st, field)))
                if isinstance(st, ast.Try):
                    for hd in st.handlers:
                        hd.body = block(hd.body)
                out.append(st)
            return out
        fn.body = block(fn.body)
        return changed


def _negate(c):
    if isinstance(c, ast.UnaryOp) and isinstance(c.op, ast.Not):
        return c.operand
    if isinstance(c, ast.Compare) and len(c.ops) == 1:
        inv = {ast.Is: ast.IsNot, ast.IsNot: ast.Is, ast.Eq: ast.NotEq, ast.NotEq: ast.Eq, ast.In: ast.NotIn, ast.NotIn: ast.In}.get(type(c.ops[0]))
        if inv is not None:
            return ast.copy_location(ast.Compare(left=c.left, ops=[inv()], comparators=c.comparators), c)
    return ast.copy_location(ast.UnaryOp(op=ast.Not(), operand=c), c)


def _lift_walrus(c):
    """(`v = E` statement or None, c with the walrus replaced by v) when the assignment expression is the first thing c evaluates;
    (None, None) when c contains one elsewhere"""
    wal = [x for x in ast.walk(c) if isinstance(x, ast.NamedExpr)]
    if not wal:
        return None, c
    if len(wal) != 1:
        return None, None
    w = wal[0]
    first = None
    for x in _eval_order(c):
        first = x
        break
    # the first completed evaluation inside c must lie inside the walrus value (nothing is evaluated before it)
    inside = {id(x) for x in ast.walk(w)}
    if first is None or id(first) not in inside:
        return None, None

    class R(ast.NodeTransformer):
        def visit_NamedExpr(self, node):
            return ast.copy_location(ast.Name(id=node.target.id, ctx=ast.Load()), node)
    st = ast.copy_location(ast.Assign(targets=[ast.Name(id=w.target.id, ctx=ast.Store())], value=w.value, lineno=getattr(c, 'lineno', 1)), c)
    return st, R().visit(c)


def unfold_walrus(trees, log):
    """`while A and (v := E) is not None: B`  ->  `while True: if not A: break; v = E; if v is None: break; B`, and
    `if (v := E) ...:`  ->  `v = E; if v ...:` -- the same evaluations in the same order, as statements the other passes understand"""
    count = 0

    def block(stmts):
        nonlocal count
        out = []
        for st in stmts:
            for field in ('body', 'orelse', 'finalbody'):
                v = getattr(st, field, None)
                if isinstance(v, list) and not isinstance(st, (ast.ClassDef,)):
                    setattr(st, field, block(v))
            if isinstance(st, ast.Try):
                for h in st.handlers:
                    h.body = block(h.body)
            if isinstance(st, ast.While) and not st.orelse and any(isinstance(x, ast.NamedExpr) for x in ast.walk(st.test)):
                conj = st.test.values if isinstance(st.test, ast.BoolOp) and isinstance(st.test.op, ast.And) else [st.test]
                prefix = []
                ok = True
                for c in conj:
                    pre, c2 = _lift_walrus(c)
                    if c2 is None:
                        ok = False
                        break
                    if pre is not None:
                        prefix.append(pre)
                    prefix.append(ast.copy_location(ast.If(test=_negate(c2), body=[ast.copy_location(ast.Break(), c)], orelse=[]), c))
                if ok:
                    st.test = ast.copy_location(ast.Constant(value=True), st.test)
                    st.body = prefix + st.body
                    count += 1
            elif isinstance(st, ast.If) and any(isinstance(x, ast.NamedExpr) for x in ast.walk(st.test)):
                pre, c2 = _lift_walrus(st.test)
                if c2 is not None and pre is not None:
                    st.test = c2
                    out.append(pre)
                    count += 1
            out.append(st)
        return out
    for tree in trees.values():
        for n in ast.walk(tree):
            if isinstance(n, (ast.FunctionDef, ast.AsyncFunctionDef)):
                if any(isinstance(x, ast.NamedExpr) for x in ast.walk(n)):
                    n.body = block(n.body)
    if count:
        log.append(f'N4 {count} assignment expression(s) in loop / branch conditions unfolded into statements')


class _BetaReduce(ast.NodeTransformer):
    """getattr(x, 'name') -> x.name;  f(*(<literal tuple>)) -> f(<elements>);  (lambda a: E)(x) -> E[a := x] for atomic x"""

    def visit_Call(self, node):
        self.generic_visit(node)
        # getattr(x, 'name')
        if isinstance(node.func, ast.Name) and node.func.id == 'getattr' and len(node.args) == 2 and not node.keywords \
                and isinstance(node.args[1], ast.Constant) and isinstance(node.args[1].value, str) and node.args[1].value.isidentifier():
            return ast.copy_location(ast.Attribute(value=node.args[0], attr=node.args[1].value, ctx=ast.Load()), node)
        # f(*(...)) with a literal tuple / list
        if any(isinstance(a, ast.Starred) and isinstance(a.value, (ast.Tuple, ast.List)) for a in node.args):
            args = []
            for a in node.args:
                if isinstance(a, ast.Starred) and isinstance(a.value, (ast.Tuple, ast.List)):
                    args.extend(a.value.elts)
                else:
                    args.append(a)
            node.args = args
        # (lambda params: E)(args)
        if isinstance(node.func, ast.Lambda) and not node.keywords:
            lam = node.func
            ps = [a.arg for a in lam.args.args]
            nd = len(lam.args.defaults)
            if not lam.args.vararg and not lam.args.kwarg and not lam.args.kwonlyargs and len(ps) - nd <= len(node.args) <= len(ps) \
                    and all(_atomic(a) for a in node.args) and all(_atomic(d) for d in lam.args.defaults):
                m = dict(zip(ps, node.args))
                for p_, d_ in zip(ps[len(ps) - nd:], lam.args.defaults):
                    m.setdefault(p_, d_)                  # a parameter the call leaves out takes its default (a constant)
                return ast.copy_location(_BetaReduce().visit(_Subst(m, {}).visit(copy.deepcopy(lam.body))), node)
        return node


def unroll_table_loops(trees, base, log):
    """`for a, b in TABLE: BODY` where TABLE is a literal tuple / list of tuples bound once (module level, class body, or returned by
    a new zero-argument method that only returns the literal) and whose elements evaluate nothing (names, constants, attribute
    references, lambdas): the loop becomes BODY once per row, in order, with the row's expressions in place of the loop variables."""
    mod_tables = {}      # (module, name) -> literal
    cls_tables = {}      # attr name -> [literal]
    ret_tables = {}      # method name -> [(cls, literal)]

    def literal_rows(v):
        if isinstance(v, (ast.Tuple, ast.List)) and v.elts and len(v.elts) <= 40:
            return v.elts
        return None

    def pure_elem(e):
        for x in ast.walk(e):
            if isinstance(x, ast.Lambda):
                continue
        stack = [e]
        while stack:
            x = stack.pop()
            if isinstance(x, ast.Lambda):
                continue                      # evaluated only when called
            if isinstance(x, (ast.Call, ast.NamedExpr, ast.Await, ast.Yield, ast.YieldFrom, ast.Subscript, ast.BinOp, ast.Compare, ast.BoolOp, ast.IfExp,
                              ast.ListComp, ast.SetComp, ast.DictComp, ast.GeneratorExp)):
                return False
            stack.extend(ast.iter_child_nodes(x))
        return True
    for mname, tree in trees.items():
        stores = {}
        for st in tree.body:
            if isinstance(st, (ast.Assign, ast.AnnAssign)):
                n_, v_ = _single_name_assign(st)
                if n_ is not None:
                    stores.setdefault(n_, []).append(v_)
        bm = base.get(mname, {})
        for n_, vs in stores.items():
            if len(vs) == 1 and literal_rows(vs[0]) is not None and n_ not in bm.get('consts', ()):
                mod_tables[(mname, n_)] = vs[0]           # (a table the baseline already had is looped over there as well: left alone)
        for c in tree.body:
            if isinstance(c, ast.ClassDef):
                cst = {}
                for st in c.body:
                    if isinstance(st, (ast.Assign, ast.AnnAssign)):
                        n_, v_ = _single_name_assign(st)
                        if n_ is not None:
                            cst.setdefault(n_, []).append(v_)
                    elif isinstance(st, ast.FunctionDef) and len(st.args.args) == 1 and not st.decorator_list:
                        b = _body(st)
                        known = base.get(mname, {}).get('classes', {}).get(c.name, {}).get('methods', {})
                        if len(b) == 1 and isinstance(b[0], ast.Return) and b[0].value is not None and literal_rows(b[0].value) is not None and st.name not in known:
                            ret_tables.setdefault(st.name, []).append((c.name, b[0].value, st))
                for n_, vs in cst.items():
                    if len(vs) == 1 and literal_rows(vs[0]) is not None and n_ not in base.get(mname, {}).get('classes', {}).get(c.name, {}).get('consts', ()):
                        cls_tables.setdefault(n_, []).append(vs[0])
    # a table that is written anywhere (item store, mutator call, re-binding through an attribute) is not a constant
    tainted = set()
    for tree in trees.values():
        for x in ast.walk(tree):
            if isinstance(x, ast.Subscript) and isinstance(x.ctx, (ast.Store, ast.Del)):
                b = x.value
                tainted.add(b.id if isinstance(b, ast.Name) else b.attr if isinstance(b, ast.Attribute) else None)
            elif isinstance(x, ast.Attribute) and isinstance(x.ctx, (ast.Store, ast.Del)):
                tainted.add(x.attr)
            elif isinstance(x, ast.Global):
                tainted.update(x.names)
            elif isinstance(x, ast.Call) and isinstance(x.func, ast.Attribute) and x.func.attr in ('append', 'extend', 'insert', 'remove', 'pop', 'clear', 'sort', 'reverse'):
                b = x.func.value
                tainted.add(b.id if isinstance(b, ast.Name) else b.attr if isinstance(b, ast.Attribute) else None)
    count = 0
    used_methods = set()

    def resolve(it, mname):
        if isinstance(it, ast.Name) and (mname, it.id) in mod_tables and it.id not in tainted:
            return mod_tables[(mname, it.id)]
        if isinstance(it, ast.Attribute) and isinstance(it.value, ast.Name) and it.attr not in tainted and len(cls_tables.get(it.attr, ())) == 1:
            return cls_tables[it.attr][0]
        if isinstance(it, ast.Call) and not it.args and not it.keywords and isinstance(it.func, ast.Attribute) and _txt(it.func.value) == 'self' \
                and len(ret_tables.get(it.func.attr, ())) == 1:
            used_methods.add(it.func.attr)
            return ret_tables[it.func.attr][0][1]
        return None

    def block(stmts, mname, locals_):
        nonlocal count
        out = []
        for st in stmts:
            for field in ('body', 'orelse', 'finalbody'):
                v = getattr(st, field, None)
                if isinstance(v, list) and v and isinstance(v[0], ast.stmt) and not isinstance(st, (ast.FunctionDef, ast.AsyncFunctionDef, ast.ClassDef)):
                    setattr(st, field, block(v, mname, locals_))
            if isinstance(st, ast.Try):
                for h in st.handlers:
                    h.body = block(h.body, mname, locals_)
            if isinstance(st, ast.For) and not st.orelse and len(st.body) <= 4:
                if isinstance(st.iter, ast.Name) and st.iter.id in locals_:
                    out.append(st)
                    continue
                table = resolve(st.iter, mname)
                rows = literal_rows(table) if table is not None else None
                tg = st.target.elts if isinstance(st.target, (ast.Tuple, ast.List)) else [st.target]
                if rows is not None and all(isinstance(t, ast.Name) for t in tg) \
                        and not any(isinstance(x, (ast.Break, ast.Continue, ast.Return, ast.YieldFrom)) for b in st.body for x in ast.walk(b)) \
                        and not any(isinstance(x, ast.Name) and isinstance(x.ctx, (ast.Store, ast.Del)) and x.id in {t.id for t in tg} for b in st.body for x in ast.walk(b)):
                    names = [t.id for t in tg]
                    okr = True
                    for r in rows:
                        parts = r.elts if (isinstance(st.target, (ast.Tuple, ast.List)) and isinstance(r, (ast.Tuple, ast.List))) else [r]
                        if len(parts) != len(names) or not all(pure_elem(p_) for p_ in parts):
                            okr = False
                            break
                    if okr:
                        for r in rows:
                            parts = r.elts if isinstance(st.target, (ast.Tuple, ast.List)) else [r]
                            m = dict(zip(names, parts))
                            for b in st.body:
                                nb = _Subst(m, {}).visit(copy.deepcopy(b))
                                nb = _BetaReduce().visit(nb)
                                for x in ast.walk(nb):
                                    if hasattr(x, 'lineno'):
                                        x.lineno = getattr(r, 'lineno', x.lineno)
                                ast.fix_missing_locations(nb)
                                out.append(nb)
                        count += 1
                        continue
            out.append(st)
        return out
    for mname, tree in trees.items():
        for n in ast.walk(tree):
            if isinstance(n, (ast.FunctionDef, ast.AsyncFunctionDef)) and any(isinstance(x, ast.For) for x in ast.walk(n)):
                n.body = block(n.body, mname, _locals_of(n))
    # table-returning methods that are no longer referenced go
    for name in used_methods:
        refs = sum(1 for tree in trees.values() for x in ast.walk(tree) if isinstance(x, ast.Attribute) and x.attr == name)
        if refs == 0:
            cname, _lit, fn = ret_tables[name][0]
            for tree in trees.values():
                for c in tree.body:
                    if isinstance(c, ast.ClassDef) and fn in c.body:
                        c.body.remove(fn)
    if count:
        log.append(f'N7 {count} loop(s) over a constant table of rows unrolled')


def defaults_into_init(trees, base, log):
    """N8: new class-level defaults `_x = <immutable constant>` of a class with a constructor, read and written only through `self`,
    are the first assignments of the constructor (an instance that never assigned the name reads the class value: the same value)."""
    count = 0
    for mname, tree in trees.items():
        b = base.get(mname)
        if b is None:
            continue
        for c in tree.body:
            if not isinstance(c, ast.ClassDef) or c.name not in b['classes']:
                continue
            init = next((m for m in c.body if isinstance(m, ast.FunctionDef) and m.name == '__init__'), None)
            if init is None:
                continue
            known = set(b['classes'][c.name].get('consts', ()))

            def immutable(v):
                if isinstance(v, ast.Constant):
                    return True
                if isinstance(v, ast.UnaryOp) and isinstance(v.op, (ast.USub, ast.UAdd)) and isinstance(v.operand, ast.Constant):
                    return True
                if isinstance(v, ast.Attribute):
                    x = v
                    while isinstance(x, ast.Attribute):
                        x = x.value
                    return isinstance(x, ast.Name) and x.id[:1].isupper() or (isinstance(x, ast.Name) and x.id in ('logging', 'math'))
                if isinstance(v, ast.Tuple):
                    return all(immutable(e) for e in v.elts)
                return False
            moved = []
            for st in list(c.body):
                if isinstance(st, (ast.Assign, ast.AnnAssign)):
                    n_, v_ = _single_name_assign(st)
                    if n_ is None or n_ in known or not n_.startswith('_') or (n_.startswith('__') and n_.endswith('__')) or not immutable(v_):
                        continue
                    # accessed through self only
                    mangled = f'_{c.name.lstrip("_")}{n_}' if n_.startswith('__') else n_
                    other = False
                    stored = False
                    for t2 in trees.values():
                        for x in ast.walk(t2):
                            if isinstance(x, ast.Attribute) and x.attr in (n_, mangled):
                                if not (isinstance(x.value, ast.Name) and x.value.id == 'self'):
                                    other = True
                                elif isinstance(x.ctx, ast.Store):
                                    stored = True
                    if other or not stored:
                        continue              # (a class constant nobody assigns through self is a constant, not the default of a field)
                    moved.append((st, n_, v_))
            if not moved:
                continue
            body = init.body
            k = 1 if body and _is_doc(body[0]) else 0
            new = []
            for (st, n_, v_) in moved:
                c.body.remove(st)
                new.append(ast.copy_location(ast.Assign(targets=[ast.Attribute(value=ast.Name(id='self', ctx=ast.Load()), attr=n_, ctx=ast.Store())],
                                                        value=v_, lineno=st.lineno), st))
                count += 1
            init.body = body[:k] + new + body[k:]
            if not c.body:
                c.body.append(ast.Pass())
            ast.fix_missing_locations(c)
    if count:
        log.append(f'N8 {count} new class-level default(s) of immutable value moved to the head of the constructor')


def flatten_records(trees, base, log):
    """N9: a *new* plain record class K (fields set by its constructor from parameters / defaults, or a dataclass) of which a
    baseline class keeps one private instance per object (`self.h = K(...)` in its constructor, `h` new, never handed out: after
    helper inlining and alias propagation every remaining mention is `self.h.<field>`) is spread into fields of the owner:
    `self.h.f` becomes `self.h_f`, the constructor call becomes the field initialisations.  N0 then maps the new field names back
    to the fields they replaced when the usage profile is the same."""
    recs = {}
    for mname, tree in trees.items():
        known = base.get(mname, {}).get('classes', {})
        for c in tree.body:
            if not isinstance(c, ast.ClassDef) or c.name in known:
                continue
            if any(not (isinstance(b, ast.Name) and b.id == 'object') for b in c.bases):
                continue
            is_dc = any(_txt(d).split('(')[0].split('.')[-1] == 'dataclass' for d in c.decorator_list)
            params, fields = [], {}
            init = next((m for m in c.body if isinstance(m, ast.FunctionDef) and m.name == '__init__'), None)
            ok = True
            if is_dc and init is None:
                for st in c.body:
                    if isinstance(st, ast.AnnAssign) and isinstance(st.target, ast.Name):
                        if st.value is not None and not _pure_const_expr(st.value) and not (isinstance(st.value, ast.Constant)):
                            ok = False
                        params.append((st.target.id, st.value))
                        fields[st.target.id] = ('param', st.target.id)
            elif init is not None and not is_dc:
                a = init.args
                if a.vararg or a.kwarg or a.kwonlyargs or a.posonlyargs:
                    ok = False
                names = [x.arg for x in a.args][1:]
                defs = [None] * (len(names) - len(a.defaults)) + list(a.defaults)
                params = list(zip(names, defs))
                for st in _body(init):
                    n_ = v_ = None
                    if isinstance(st, ast.Assign) and len(st.targets) == 1:
                        n_, v_ = st.targets[0], st.value
                    elif isinstance(st, ast.AnnAssign) and st.value is not None:
                        n_, v_ = st.target, st.value
                    if not (isinstance(n_, ast.Attribute) and isinstance(n_.value, ast.Name) and n_.value.id == 'self'):
                        ok = False
                        break
                    if isinstance(v_, ast.Name) and v_.id in names:
                        fields[n_.attr] = ('param', v_.id)
                    elif isinstance(v_, ast.Constant):
                        fields[n_.attr] = ('const', v_)
                    else:
                        ok = False
                        break
            else:
                ok = False
            if ok and fields:
                recs[c.name] = {'params': params, 'fields': fields, 'node': c, 'module': mname}
    if not recs:
        return
    # holders
    done = 0
    for mname, tree in trees.items():
        b = base.get(mname)
        if b is None:
            continue
        for c in tree.body:
            if not isinstance(c, ast.ClassDef) or c.name not in b['classes']:
                continue
            init = next((m for m in c.body if isinstance(m, ast.FunctionDef) and m.name == '__init__'), None)
            if init is None:
                continue
            for st in list(init.body):
                tgt = val = None
                if isinstance(st, ast.Assign) and len(st.targets) == 1:
                    tgt, val = st.targets[0], st.value
                elif isinstance(st, ast.AnnAssign) and st.value is not None:
                    tgt, val = st.target, st.value
                if not (isinstance(tgt, ast.Attribute) and isinstance(tgt.value, ast.Name) and tgt.value.id == 'self' and isinstance(val, ast.Call)
                        and isinstance(val.func, ast.Name) and val.func.id in recs and tgt.attr.startswith('_')):
                    continue
                h, K = tgt.attr, recs[val.func.id]
                if h in base.get('__attrs__', {}):
                    continue
                # bind constructor arguments
                if any(isinstance(a, ast.Starred) for a in val.args) or any(k.arg is None for k in val.keywords):
                    continue
                bind = {}
                pn = [p for p, _d in K['params']]
                if len(val.args) > len(pn):
                    continue
                for p_, a_ in zip(pn, val.args):
                    bind[p_] = a_
                for k in val.keywords:
                    bind[k.arg] = k.value
                for p_, d_ in K['params']:
                    if p_ not in bind:
                        if d_ is None:
                            bind = None
                            break
                        bind[p_] = d_
                if bind is None or not all(_atomic(v) or isinstance(v, ast.Constant) or _pure_const_expr(v) for v in bind.values()):
                    continue
                # every other mention of h: self.h.<field of K>
                okh = True
                parents = {}
                for t2 in trees.values():
                    for x in ast.walk(t2):
                        for ch in ast.iter_child_nodes(x):
                            parents[id(ch)] = x
                uses = []
                for t2 in trees.values():
                    for x in ast.walk(t2):
                        if isinstance(x, ast.Attribute) and x.attr == h:
                            if x is tgt:
                                continue
                            par = parents.get(id(x))
                            if not (isinstance(x.value, ast.Name) and x.value.id == 'self' and isinstance(par, ast.Attribute) and par.value is x
                                    and par.attr in K['fields'] and isinstance(x.ctx, ast.Load)):
                                okh = False
                            else:
                                uses.append(par)
                        elif isinstance(x, ast.Constant) and isinstance(x.value, str) and x.value == h:
                            okh = False
                if not okh:
                    continue
                for par in uses:
                    par.value = ast.copy_location(ast.Name(id='self', ctx=ast.Load()), par)
                    par.attr = f'{h}_{par.attr}'
                new = []
                for f_, (kind, src) in K['fields'].items():
                    v_ = copy.deepcopy(bind[src]) if kind == 'param' else copy.deepcopy(src)
                    new.append(ast.copy_location(ast.Assign(targets=[ast.Attribute(value=ast.Name(id='self', ctx=ast.Load()), attr=f'{h}_{f_}', ctx=ast.Store())],
                                                            value=v_, lineno=st.lineno), st))
                i_ = init.body.index(st)
                init.body[i_:i_ + 1] = new
                ast.fix_missing_locations(init)
                done += 1
                log.append(f'N9 {c.name}.{h}: one private {val.func.id} record per object spread into the fields {[f"{h}_{f_}" for f_ in K["fields"]]}')
    # record classes that are no longer mentioned go
    if done:
        for name, K in recs.items():
            refs = sum(1 for t2 in trees.values() for x in ast.walk(t2) if (isinstance(x, ast.Name) and x.id == name)
                       or (isinstance(x, ast.Constant) and x.value == name))
            if refs == 0:
                tree = trees[K['module']]
                if K['node'] in tree.body:
                    tree.body.remove(K['node'])


def named_tuple_records(trees, base, log):
    """N9b.  A new `typing.NamedTuple` class K is a tuple with named positions.  Values of K are tracked through the module (constructor
    calls, `_replace`, locals, fields, parameters, elements of containers they are pushed into, loop variables over such containers).
      * K values kept in containers (heap entries): K(...) becomes the tuple display in field order, `x.f` on a tracked value `x[i]`;
      * K values only held in locals / fields / parameters: every holder is split into one holder per field (`self.h = K(a, b)` ->
        `self.h_f1 = a; self.h_f2 = b`, a parameter `p` -> `p_f1, p_f2`, `x._replace(f1=v)` -> (v, x_f2)).
    Nothing is rewritten when a tracked value is used in any other way (compared, returned, passed to unknown code)."""
    for mname, tree in trees.items():
        b = base.get(mname, {'classes': {}})
        for kc in [c for c in tree.body if isinstance(c, ast.ClassDef) and c.name not in b.get('classes', {})
                   and any(_txt(x) in ('NamedTuple', 'typing.NamedTuple') for x in c.bases)]:
            K = kc.name
            fields, defaults = [], {}
            for st in kc.body:
                if isinstance(st, ast.AnnAssign) and isinstance(st.target, ast.Name):
                    fields.append(st.target.id)
                    if st.value is not None:
                        defaults[st.target.id] = st.value
            if not fields:
                continue
            # 1. classmethod factories `return cls(...)` called as K.m(args)
            facts = {}
            for m in kc.body:
                if isinstance(m, ast.FunctionDef) and any(_txt(d) == 'classmethod' for d in m.decorator_list):
                    body = _body(m)
                    if len(body) == 1 and isinstance(body[0], ast.Return) and isinstance(body[0].value, ast.Call) and _txt(body[0].value.func) in ('cls', K):
                        facts[m.name] = m

            class _Fact(ast.NodeTransformer):
                def visit_Call(self, node):
                    self.generic_visit(node)
                    if isinstance(node.func, ast.Attribute) and isinstance(node.func.value, ast.Name) and node.func.value.id == K and node.func.attr in facts \
                            and not node.keywords:
                        m = facts[node.func.attr]
                        ps = [a.arg for a in m.args.args][1:]
                        if len(ps) == len(node.args) and all(_atomic(a) for a in node.args):
                            call = _Subst(dict(zip(ps, node.args)), {}).visit(copy.deepcopy(_body(m)[0].value))
                            call.func = ast.Name(id=K, ctx=ast.Load())
                            return ast.copy_location(call, node)
                    return node
            for st in tree.body:
                if st is not kc:
                    _Fact().visit(st)

            def ctor_components(call):
                comp = {}
                if len(call.args) > len(fields) or any(isinstance(a, ast.Starred) for a in call.args) or any(k.arg is None for k in call.keywords):
                    return None
                for f, a in zip(fields, call.args):
                    comp[f] = a
                for k in call.keywords:
                    if k.arg not in fields or k.arg in comp:
                        return None
                    comp[k.arg] = k.value
                for f in fields:
                    if f not in comp:
                        if f not in defaults:
                            return None
                        comp[f] = defaults[f]
                return comp

            fns = [(c2, f) for c2 in [None] + [c for c in tree.body if isinstance(c, ast.ClassDef) and c is not kc]
                   for f in (tree.body if c2 is None else c2.body) if isinstance(f, (ast.FunctionDef, ast.AsyncFunctionDef))]
            by_name = {}
            for (c2, f) in fns:
                by_name.setdefault(f.name, []).append((c2, f))
            local, field_c, elem_c = set(), set(), set()          # (id(fn), name) | attr name | attr name

            def kval(e, fn):
                if isinstance(e, ast.Call):
                    if isinstance(e.func, ast.Name) and e.func.id == K:
                        return True
                    if isinstance(e.func, ast.Attribute) and e.func.attr == '_replace' and kval(e.func.value, fn):
                        return True
                    ft = _txt(e.func)
                    if ft in ('heapq.heappop', 'heapq.heappushpop', 'heapq.heapreplace') and e.args and isinstance(e.args[0], ast.Attribute) and e.args[0].attr in elem_c:
                        return True
                    if isinstance(e.func, ast.Attribute) and e.func.attr == 'pop' and isinstance(e.func.value, ast.Attribute) and e.func.value.attr in elem_c:
                        return True
                    return False
                if isinstance(e, ast.Name):
                    return (id(fn), e.id) in local
                if isinstance(e, ast.Attribute):
                    return e.attr in field_c
                if isinstance(e, ast.Subscript) and isinstance(e.value, ast.Attribute) and e.value.attr in elem_c and not isinstance(e.slice, ast.Slice):
                    return True
                if isinstance(e, ast.IfExp):
                    return kval(e.body, fn) and kval(e.orelse, fn)
                return False
            changed = True
            rounds = 0
            while changed and rounds < 8:
                changed = False
                rounds += 1
                for (c2, fn) in fns:
                    for x in ast.walk(fn):
                        if isinstance(x, (ast.Assign, ast.AnnAssign)) and getattr(x, 'value', None) is not None and kval(x.value, fn):
                            for t in (x.targets if isinstance(x, ast.Assign) else [x.target]):
                                key = ('l', (id(fn), t.id)) if isinstance(t, ast.Name) else ('f', t.attr) if isinstance(t, ast.Attribute) else None
                                if key and (key[1] not in (local if key[0] == 'l' else field_c)):
                                    (local if key[0] == 'l' else field_c).add(key[1])
                                    changed = True
                        elif isinstance(x, ast.Call):
                            ft = _txt(x.func)
                            if ft in ('heapq.heappush', 'heapq.heappushpop', 'heapq.heapreplace') and len(x.args) == 2 and isinstance(x.args[0], ast.Attribute) and kval(x.args[1], fn):
                                if x.args[0].attr not in elem_c:
                                    elem_c.add(x.args[0].attr)
                                    changed = True
                            elif isinstance(x.func, ast.Attribute) and x.func.attr in ('append', 'insert', 'remove', 'count', 'index') and isinstance(x.func.value, ast.Attribute) \
                                    and x.args and kval(x.args[-1], fn):
                                if x.func.value.attr not in elem_c:
                                    elem_c.add(x.func.value.attr)
                                    changed = True
                            else:
                                callee = x.func.attr if isinstance(x.func, ast.Attribute) else (x.func.id if isinstance(x.func, ast.Name) else None)
                                for (c3, f3) in by_name.get(callee, []):
                                    ps = [a.arg for a in f3.args.args]
                                    off = 1 if (c3 is not None and isinstance(x.func, ast.Attribute) and not any(_txt(d) == 'staticmethod' for d in f3.decorator_list)) else 0
                                    for i, a in enumerate(x.args):
                                        if kval(a, fn) and i + off < len(ps) and (id(f3), ps[i + off]) not in local:
                                            local.add((id(f3), ps[i + off]))
                                            changed = True
                                    for k in x.keywords:
                                        if k.arg in ps and kval(k.value, fn) and (id(f3), k.arg) not in local:
                                            local.add((id(f3), k.arg))
                                            changed = True
                        elif isinstance(x, (ast.For, ast.comprehension)) and isinstance(x.iter, ast.Attribute) and x.iter.attr in elem_c and isinstance(x.target, ast.Name):
                            if (id(fn), x.target.id) not in local:
                                local.add((id(fn), x.target.id))
                                changed = True
            if not (local or field_c or elem_c):
                continue
            idx = {f: i for i, f in enumerate(fields)}
            if elem_c:
                # ---- mode B: plain tuples
                ok = [True]

                def comp_b(e, f, fn):
                    if isinstance(e, ast.Call) and isinstance(e.func, ast.Name) and e.func.id == K:
                        c_ = ctor_components(e)
                        if c_ is None:
                            ok[0] = False
                            return e
                        return c_[f]
                    if isinstance(e, ast.Call) and isinstance(e.func, ast.Attribute) and e.func.attr == '_replace':
                        kw = {k.arg: k.value for k in e.keywords}
                        return kw[f] if f in kw else comp_b(e.func.value, f, fn)
                    return ast.Subscript(value=copy.deepcopy(e), slice=ast.Constant(value=idx[f]), ctx=ast.Load())

                def rewrite_fn(fn):
                    class T(ast.NodeTransformer):
                        def visit_Attribute(self, node):
                            self.generic_visit(node)
                            if isinstance(node.ctx, ast.Load) and node.attr in idx and kval(node.value, fn) and not (isinstance(node.value, ast.Attribute) and False):
                                return ast.copy_location(ast.Subscript(value=node.value, slice=ast.Constant(value=idx[node.attr]), ctx=ast.Load()), node)
                            return node

                        def visit_Call(self, node):
                            was_ctor = isinstance(node.func, ast.Name) and node.func.id == K
                            was_repl = isinstance(node.func, ast.Attribute) and node.func.attr == '_replace' and kval(node.func.value, fn)
                            if was_ctor or was_repl:
                                elts = [comp_b(node, f, fn) for f in fields]
                                elts = [self.visit(copy.deepcopy(x)) for x in elts]
                                return ast.copy_location(ast.Tuple(elts=elts, ctx=ast.Load()), node)
                            return self.generic_visit(node)
                    T().visit(fn)
                for (c2, fn) in fns:
                    rewrite_fn(fn)
                if ok[0]:
                    log.append(f'N9b {mname}: values of the NamedTuple {K} (elements of {sorted(elem_c)}) written as plain tuples {tuple(fields)}')
            else:
                # ---- mode A: one holder per field; validate every use first
                parents = {}
                for (c2, fn) in fns:
                    for p in ast.walk(fn):
                        for ch in ast.iter_child_nodes(p):
                            parents[id(ch)] = p
                good = True
                for (c2, fn) in fns:
                    for x in ast.walk(fn):
                        is_car = (isinstance(x, ast.Name) and (id(fn), x.id) in local) or (isinstance(x, ast.Attribute) and x.attr in field_c)
                        if not is_car:
                            continue
                        p = parents.get(id(x))
                        if isinstance(getattr(x, 'ctx', None), ast.Store):
                            if not (isinstance(p, (ast.Assign, ast.AnnAssign)) and kval(p.value, fn)) and not (isinstance(p, ast.AnnAssign) and p.value is None):
                                good = False
                            continue
                        if isinstance(p, ast.Attribute) and p.value is x and (p.attr in idx or p.attr == '_replace'):
                            continue
                        if isinstance(p, (ast.Assign, ast.AnnAssign)) and p.value is x:
                            continue
                        if isinstance(p, ast.Call) and x in p.args:
                            continue
                        if isinstance(p, ast.keyword):
                            continue
                        if isinstance(p, ast.IfExp) and x is not p.test:
                            continue
                        good = False
                # carrier parameters: defaults must be K-valued / None
                for (c2, fn) in fns:
                    a = fn.args
                    ps = a.args
                    dfl = [None] * (len(ps) - len(a.defaults)) + list(a.defaults)
                    for p_, d_ in zip(ps, dfl):
                        if (id(fn), p_.arg) in local and d_ is not None and not (kval(d_, fn) or (isinstance(d_, ast.Constant) and d_.value is None)):
                            good = False
                if not good:
                    continue

                def comp_a(e, f, fn):
                    if isinstance(e, ast.Call) and isinstance(e.func, ast.Name) and e.func.id == K:
                        c_ = ctor_components(e)
                        return copy.deepcopy(c_[f]) if c_ else None
                    if isinstance(e, ast.Call) and isinstance(e.func, ast.Attribute) and e.func.attr == '_replace':
                        kw = {k.arg: k.value for k in e.keywords}
                        return copy.deepcopy(kw[f]) if f in kw else comp_a(e.func.value, f, fn)
                    if isinstance(e, ast.Name):
                        return ast.Name(id=f'{e.id}_{f}', ctx=ast.Load())
                    if isinstance(e, ast.Attribute):
                        return ast.Attribute(value=copy.deepcopy(e.value), attr=f'{e.attr}_{f}', ctx=ast.Load())
                    if isinstance(e, ast.IfExp):
                        return ast.IfExp(test=copy.deepcopy(e.test), body=comp_a(e.body, f, fn), orelse=comp_a(e.orelse, f, fn))
                    return None
                failed = [False]

                def rewrite_block(stmts, fn):
                    out = []
                    for st in stmts:
                        for fld in ('body', 'orelse', 'finalbody'):
                            v = getattr(st, fld, None)
                            if isinstance(v, list) and v and isinstance(v[0], ast.stmt) and not isinstance(st, (ast.FunctionDef, ast.AsyncFunctionDef, ast.ClassDef)):
                                setattr(st, fld, rewrite_block(v, fn))
                        if isinstance(st, ast.Try):
                            for h in st.handlers:
                                h.body = rewrite_block(h.body, fn)
                        if isinstance(st, (ast.Assign, ast.AnnAssign)) and getattr(st, 'value', None) is not None and kval(st.value, fn):
                            tgts = st.targets if isinstance(st, ast.Assign) else [st.target]
                            for t in tgts:
                                for f in fields:
                                    v = comp_a(st.value, f, fn)
                                    if v is None:
                                        failed[0] = True
                                        v = ast.Constant(value=None)
                                    nt = ast.Name(id=f'{t.id}_{f}', ctx=ast.Store()) if isinstance(t, ast.Name) else \
                                        ast.Attribute(value=copy.deepcopy(t.value), attr=f'{t.attr}_{f}', ctx=ast.Store())
                                    out.append(ast.copy_location(ast.Assign(targets=[nt], value=v, lineno=st.lineno), st))
                            continue
                        if isinstance(st, ast.AnnAssign) and st.value is None and ((isinstance(st.target, ast.Name) and (id(fn), st.target.id) in local)
                                                                                  or (isinstance(st.target, ast.Attribute) and st.target.attr in field_c)):
                            continue
                        out.append(st)
                    return out

                def rewrite_exprs(fn):
                    class T(ast.NodeTransformer):
                        def visit_Attribute(self, node):
                            if isinstance(node.ctx, ast.Load) and node.attr in idx and kval(node.value, fn):
                                v = comp_a(node.value, node.attr, fn)
                                if v is not None:
                                    return ast.copy_location(self.visit(v) if not isinstance(v, (ast.Name, ast.Attribute)) else v, node)
                            return self.generic_visit(node)

                        def visit_Call(self, node):
                            # arguments that are K values at carrier parameters are spread
                            new_args = []
                            for a in node.args:
                                if kval(a, fn) and not (isinstance(node.func, ast.Name) and node.func.id == K):
                                    for f in fields:
                                        v = comp_a(a, f, fn)
                                        if v is None:
                                            failed[0] = True
                                            v = ast.Constant(value=None)
                                        new_args.append(v)
                                else:
                                    new_args.append(a)
                            node.args = new_args
                            new_kw = []
                            for k in node.keywords:
                                if k.arg is not None and kval(k.value, fn) and not (isinstance(node.func, ast.Attribute) and node.func.attr == '_replace'):
                                    for f in fields:
                                        new_kw.append(ast.keyword(arg=f'{k.arg}_{f}', value=comp_a(k.value, f, fn) or ast.Constant(value=None)))
                                else:
                                    new_kw.append(k)
                            node.keywords = new_kw
                            return self.generic_visit(node)
                    T().visit(fn)
                for (c2, fn) in fns:
                    fn.body = rewrite_block(fn.body, fn)
                for (c2, fn) in fns:
                    rewrite_exprs(fn)
                for (c2, fn) in fns:
                    a = fn.args
                    ps = a.args
                    dfl = [None] * (len(ps) - len(a.defaults)) + list(a.defaults)
                    new_ps, new_d = [], []
                    for p_, d_ in zip(ps, dfl):
                        if (id(fn), p_.arg) in local:
                            for f in fields:
                                new_ps.append(ast.arg(arg=f'{p_.arg}_{f}'))
                                if d_ is not None:
                                    new_d.append(comp_a(d_, f, fn) if kval(d_, fn) else ast.Constant(value=None))
                        else:
                            new_ps.append(p_)
                            if d_ is not None:
                                new_d.append(d_)
                    a.args, a.defaults = new_ps, new_d
                    ast.fix_missing_locations(fn)
                log.append(f'N9b {mname}: holders of the NamedTuple {K} ({sorted(field_c)} and {len(local)} local(s) / parameter(s)) split into one holder per field {tuple(fields)}')
            # annotations do not keep the class alive
            ann = set()
            for st in tree.body:
                if st is kc:
                    continue
                for x in ast.walk(st):
                    for sub in ([x.annotation] if isinstance(x, (ast.AnnAssign, ast.arg)) and getattr(x, 'annotation', None) is not None else []) + \
                            ([x.returns] if isinstance(x, (ast.FunctionDef, ast.AsyncFunctionDef)) and x.returns is not None else []):
                        for y in ast.walk(sub):
                            if isinstance(y, ast.Name) and y.id == K:
                                ann.add(id(y))
                                y.id = 'object'
            still = any(isinstance(x, ast.Name) and x.id == K for st in tree.body if st is not kc for x in ast.walk(st))
            if not still and kc in tree.body:
                tree.body.remove(kc)
            for (c2, fn) in fns:
                ast.fix_missing_locations(fn)


def inline_yield_sequences(trees, base, log):
    """`for T in self.g(): S` with g a new parameterless generator method whose body is only `yield E1; yield E2; ...` (for instance
    after its loop over a constant table was unrolled) and S a single call statement that evaluates nothing with an effect before
    the loop variables: the loop becomes S once per yield with that yield's expressions in place of the variables."""
    gens = {}
    for mname, tree in trees.items():
        known = base.get(mname, {}).get('classes', {})
        for c in tree.body:
            if isinstance(c, ast.ClassDef):
                for m in c.body:
                    if isinstance(m, ast.FunctionDef) and len(m.args.args) == 1 and not m.decorator_list \
                            and m.name not in known.get(c.name, {}).get('methods', {}):
                        b = _body(m)
                        if b and len(b) <= 40 and all(isinstance(st, ast.Expr) and isinstance(st.value, ast.Yield) and st.value.value is not None for st in b):
                            gens.setdefault(m.name, []).append((c, m, [st.value.value for st in b]))
    gens = {k: v[0] for k, v in gens.items() if len(v) == 1}
    if not gens:
        return
    count = {}

    def block(stmts):
        out = []
        for st in stmts:
            for field in ('body', 'orelse', 'finalbody'):
                v = getattr(st, field, None)
                if isinstance(v, list) and v and isinstance(v[0], ast.stmt) and not isinstance(st, (ast.FunctionDef, ast.ClassDef)):
                    setattr(st, field, block(v))
            if isinstance(st, ast.Try):
                for h in st.handlers:
                    h.body = block(h.body)
            if isinstance(st, ast.For) and not st.orelse and len(st.body) == 1 and isinstance(st.body[0], ast.Expr) and isinstance(st.body[0].value, ast.Call) \
                    and isinstance(st.iter, ast.Call) and not st.iter.args and not st.iter.keywords and isinstance(st.iter.func, ast.Attribute) \
                    and _txt(st.iter.func.value) == 'self' and st.iter.func.attr in gens:
                cls, gfn, ys = gens[st.iter.func.attr]
                tg = st.target.elts if isinstance(st.target, (ast.Tuple, ast.List)) else [st.target]
                call = st.body[0].value
                names = [t.id for t in tg] if all(isinstance(t, ast.Name) for t in tg) else None
                ok = names is not None and isinstance(call.func, ast.Attribute) and _atomic(call.func) and not call.keywords
                if ok:
                    # arguments: loop variables or pure reads, each loop variable exactly once and only as a direct argument
                    seen = []
                    for a in call.args:
                        if isinstance(a, ast.Name) and a.id in names:
                            seen.append(a.id)
                        elif not (_atomic(a) or _pure_read(a)) or any(isinstance(x, ast.Name) and x.id in names for x in ast.walk(a)):
                            ok = False
                    ok = ok and sorted(seen) == sorted(names) and seen == [n for n in names if n in seen]
                if ok:
                    for y in ys:
                        parts = y.elts if (isinstance(st.target, (ast.Tuple, ast.List)) and isinstance(y, ast.Tuple)) else [y]
                        if len(parts) != len(names):
                            ok = False
                if ok:
                    for y in ys:
                        parts = y.elts if isinstance(st.target, (ast.Tuple, ast.List)) else [y]
                        m = dict(zip(names, parts))
                        nb = _Subst(m, {}).visit(copy.deepcopy(st.body[0]))
                        for x in ast.walk(nb):
                            if hasattr(x, 'lineno'):
                                x.lineno = getattr(y, 'lineno', x.lineno)
                        ast.fix_missing_locations(nb)
                        out.append(nb)
                    count[st.iter.func.attr] = count.get(st.iter.func.attr, 0) + 1
                    continue
            out.append(st)
        return out
    for mname, tree in trees.items():
        for n in tree.body:
            if isinstance(n, ast.ClassDef):
                for m in n.body:
                    if isinstance(m, ast.FunctionDef) and m.name not in gens:
                        m.body = block(m.body)
    for name, k in count.items():
        cls, gfn, _ys = gens[name]
        refs = sum(1 for tree in trees.values() for x in ast.walk(tree) if isinstance(x, ast.Attribute) and x.attr == name)
        if refs == 0 and gfn in cls.body:
            cls.body.remove(gfn)
        log.append(f'N2 generator {cls.name}.{name} (a sequence of {len(_ys)} yields) inlined into {k} for-loop(s)' + ('; definition dropped' if refs == 0 else ''))


def inline_derived_fields(trees, base, log):
    """N3 for fields: a *new* private field assigned exactly once in the whole program, at the top level of a constructor, to a pure
    expression over fields that only constructors bind (`self._span = self._hi - self._lo`) holds that expression's value for the
    life of the object; every read of it becomes the expression (evaluated on the same operands: the same float) and the store goes."""
    attr_rebound, _item = _rebound_attrs(trees)
    known = base.get('__attrs__', {})
    stores = {}
    for mname, tree in trees.items():
        for c in tree.body:
            if isinstance(c, ast.ClassDef):
                for m in c.body:
                    if isinstance(m, ast.FunctionDef):
                        for x in ast.walk(m):
                            if isinstance(x, ast.Attribute) and isinstance(x.ctx, (ast.Store, ast.Del)):
                                stores.setdefault(x.attr, []).append((c, m, x))
    count = 0
    bases = {}
    for tree in trees.values():
        for c in tree.body:
            if isinstance(c, ast.ClassDef):
                bases[c.name] = [b.id if isinstance(b, ast.Name) else getattr(b, 'attr', None) for b in c.bases]

    def owner_of(cname, owners, seen=()):
        if cname in owners:
            return cname
        for b in bases.get(cname, ()):
            if b and b not in seen:
                r = owner_of(b, owners, seen + (cname,))
                if r:
                    return r
        return None
    for f, sts in sorted(stores.items()):
        if f in known or not f.startswith('_') or f.startswith('__') or f in attr_rebound:
            continue
        if any(m.name != '__init__' or not (isinstance(t.value, ast.Name) and t.value.id == 'self') for (_c, m, t) in sts):
            continue
        if len({c.name for (c, _m, _t) in sts}) != len(sts):
            continue                                  # two stores in one constructor

        def ok_expr(x):
            if isinstance(x, ast.Constant):
                return True
            if isinstance(x, ast.Attribute):
                return isinstance(x.value, ast.Name) and x.value.id == 'self' and x.attr not in attr_rebound and x.attr != f \
                    and len(stores.get(x.attr, ())) >= 1 and all(mm.name == '__init__' for (_c, mm, _x) in stores[x.attr])
            if isinstance(x, ast.BinOp):
                return ok_expr(x.left) and ok_expr(x.right)
            if isinstance(x, ast.UnaryOp) and isinstance(x.op, (ast.USub, ast.UAdd)):
                return ok_expr(x.operand)
            return False
        defs_ = {}
        good = True
        for (c, m, tgt) in sts:
            st = next((s_ for s_ in m.body if isinstance(s_, (ast.Assign, ast.AnnAssign)) and getattr(s_, 'value', None) is not None
                       and (s_.targets[0] if isinstance(s_, ast.Assign) and len(s_.targets) == 1 else getattr(s_, 'target', None)) is tgt), None)
            if st is None or not isinstance(st.value, (ast.BinOp, ast.UnaryOp)) or not ok_expr(st.value):
                good = False
                break
            idx = m.body.index(st)
            later_writes = {x.attr for s_ in m.body[idx + 1:] for x in ast.walk(s_) if isinstance(x, ast.Attribute) and isinstance(x.ctx, ast.Store)}
            if any(isinstance(x, ast.Attribute) and x.attr in later_writes for x in ast.walk(st.value)):
                good = False
                break
            defs_[c.name] = (c, m, st)
        if not good or any(owner_of(b, defs_) for cn in defs_ for b in bases.get(cn, ()) if b):
            continue                                  # (a constructor chain that binds the name twice)
        # every read is self.f inside a class that has (or inherits) exactly one of the definitions
        total = 0
        bad = False
        plan = []
        tgts = {id(t) for (_c, _m, t) in sts}
        for tree in trees.values():
            for x in ast.walk(tree):
                if isinstance(x, ast.Constant) and x.value == f:
                    bad = True
            for cc in tree.body:
                if isinstance(cc, ast.ClassDef):
                    own = owner_of(cc.name, defs_)
                    for x in ast.walk(cc):
                        if isinstance(x, ast.Attribute) and x.attr == f and id(x) not in tgts:
                            if own is None or not (isinstance(x.value, ast.Name) and x.value.id == 'self' and isinstance(x.ctx, ast.Load)):
                                bad = True
                    if own is not None:
                        plan.append((cc, defs_[own][2]))
                else:
                    for x in ast.walk(cc):
                        if isinstance(x, ast.Attribute) and x.attr == f:
                            bad = True
        if bad:
            continue
        for (cc, st) in plan:
            e = st.value
            rep = _ReplaceLoads(lambda node, f=f, e=e: e if isinstance(node, ast.Attribute) and node.attr == f and isinstance(node.value, ast.Name)
                                and node.value.id == 'self' else None)
            for mm in cc.body:
                if isinstance(mm, ast.FunctionDef):
                    for i_, s_ in enumerate(mm.body):
                        if s_ is not st:
                            mm.body[i_] = rep.visit(s_)
            total += rep.count
        if not total:
            continue
        for (c, m, st) in defs_.values():
            m.body.remove(st)
            if not m.body:
                m.body.append(ast.Pass())
        count += 1
        log.append(f'N3 field {f} (bound once per object, in the constructor, to ' + ' / '.join(sorted({_txt(st.value) for (_c, _m, st) in defs_.values()}))
                   + f' over constructor-only fields) read as that expression at {total} site(s)')
    for t in trees.values():
        ast.fix_missing_locations(t)


def fold_self_class_constants(trees, base, log):
    """`self.X` read in a method of class C where X is a *new* constant of C's own body (a literal, a tuple of names / literals, the name of
    a class) that nothing assigns through an object and no subclass of C re-binds is that constant; `isinstance(v, (T,))` is
    `isinstance(v, T)`."""
    bases = {}
    classes = {}
    for mname, tree in trees.items():
        for c in tree.body:
            if isinstance(c, ast.ClassDef):
                bases[c.name] = [b.id if isinstance(b, ast.Name) else getattr(b, 'attr', None) for b in c.bases]
                classes[c.name] = (mname, c)

    def descendants(name):
        out = set()
        for c, bs in bases.items():
            stack, seen = list(bs), set()
            while stack:
                b = stack.pop()
                if b is None or b in seen:
                    continue
                seen.add(b)
                if b == name:
                    out.add(c)
                    break
                stack.extend(bases.get(b, []))
        return out

    def const_value_ok(v):
        if isinstance(v, ast.Constant):
            return True
        if isinstance(v, ast.Name):
            return v.id[:1].isupper() or v.id in ('int', 'float', 'str', 'bool', 'object', 'tuple', 'list', 'dict')
        if isinstance(v, ast.Tuple):
            return all(const_value_ok(e) for e in v.elts)
        if isinstance(v, ast.Attribute):
            return const_value_ok(v.value)
        return False
    stored = set()
    for tree in trees.values():
        for x in ast.walk(tree):
            if isinstance(x, ast.Attribute) and isinstance(x.ctx, (ast.Store, ast.Del)):
                stored.add(x.attr)
    count = 0
    for cname, (mname, c) in classes.items():
        known = set(base.get(mname, {}).get('classes', {}).get(cname, {}).get('consts', ()))
        consts = {}
        for st in c.body:
            if isinstance(st, (ast.Assign, ast.AnnAssign)):
                n_, v_ = _single_name_assign(st)
                if n_ is not None and n_ not in known and n_.startswith('_') and n_ not in stored and const_value_ok(v_):
                    consts.setdefault(n_, []).append(v_)
        consts = {k: v[0] for k, v in consts.items() if len(v) == 1}
        if not consts:
            continue
        desc = descendants(cname)
        for k in list(consts):
            if any(any(isinstance(st, (ast.Assign, ast.AnnAssign)) and _single_name_assign(st)[0] == k for st in classes[d][1].body) for d in desc):
                del consts[k]                      # a subclass re-binds it: objects of that subclass read another value in the inherited method
        if not consts:
            continue
        rep = _ReplaceLoads(lambda node, consts=consts: consts[node.attr] if isinstance(node, ast.Attribute) and node.attr in consts
                            and isinstance(node.value, ast.Name) and node.value.id == 'self' else None)
        for m in c.body:
            if isinstance(m, ast.FunctionDef):
                for i_, s_ in enumerate(m.body):
                    m.body[i_] = rep.visit(s_)
        count += rep.count

    class OneTuple(ast.NodeTransformer):
        def visit_Call(self, node):
            self.generic_visit(node)
            if isinstance(node.func, ast.Name) and node.func.id == 'isinstance' and len(node.args) == 2 and isinstance(node.args[1], ast.Tuple) \
                    and len(node.args[1].elts) == 1:
                node.args[1] = node.args[1].elts[0]
            return node
    if count:
        for t in trees.values():
            OneTuple().visit(t)
            ast.fix_missing_locations(t)
        log.append(f'N1 {count} read(s) of a new class constant through self replaced by the constant')


def inline_generators(trees, base, log):
    """`for T in self.g(..): BODY` with g a new generator of the shape  <prefix>; <one loop whose body ends with the only `yield v`
    and otherwise leaves only through bare `return`>  becomes that loop with `T = v; BODY` in place of the yield and `break` in
    place of the generator's `return` (a `continue` / `break` / `return` in BODY keeps its meaning because the yield is last)."""
    defs = {}
    for mname, tree in trees.items():
        for n in tree.body:
            if isinstance(n, ast.ClassDef):
                for m in n.body:
                    if isinstance(m, ast.FunctionDef):
                        defs.setdefault(m.name, []).append((mname, n.name, m))
    gens = {}
    for name, ds in defs.items():
        if len(ds) != 1:
            continue
        mname, cls, fn = ds[0]
        b = base.get(mname)
        if b is None or (cls in b['classes'] and name in b['classes'][cls]['methods']) or fn.decorator_list:
            continue
        ys = [x for x in ast.walk(fn) if isinstance(x, (ast.Yield, ast.YieldFrom))]
        if len(ys) != 1 or not isinstance(ys[0], ast.Yield) or ys[0].value is None:
            continue
        body = _body(fn)
        if not body or not isinstance(body[-1], (ast.While, ast.For)) or body[-1].orelse:
            continue
        loop = body[-1]
        prefix = body[:-1]
        if any(isinstance(x, (ast.Return, ast.Yield)) for st in prefix for x in ast.walk(st)):
            continue
        last = loop.body[-1] if loop.body else None
        if not (isinstance(last, ast.Expr) and last.value is ys[0]):
            continue
        # inside the loop: no nested loops / try / with around returns; returns must be bare
        bad = False
        for st in loop.body[:-1]:
            for x in ast.walk(st):
                if isinstance(x, (ast.While, ast.For, ast.Try, ast.With, ast.Break, ast.Continue)):
                    bad = True
                if isinstance(x, ast.Return) and x.value is not None:
                    bad = True
        if bad or fn.args.vararg or fn.args.kwarg or fn.args.kwonlyargs or len(fn.args.args) != 1:
            continue                                  # (only parameterless generator methods for now)
        gens[name] = (cls, fn, prefix, loop)
    if not gens:
        return
    count = {}

    class RetToBreak(ast.NodeTransformer):
        def visit_Return(self, node):
            return ast.copy_location(ast.Break(), node)

    def block(stmts, cur_cls):
        out = []
        for st in stmts:
            for field in ('body', 'orelse', 'finalbody'):
                v = getattr(st, field, None)
                if isinstance(v, list) and v and isinstance(v[0], ast.stmt) and not isinstance(st, (ast.FunctionDef, ast.ClassDef)):
                    setattr(st, field, block(v, cur_cls))
            if isinstance(st, ast.Try):
                for h in st.handlers:
                    h.body = block(h.body, cur_cls)
            if isinstance(st, ast.For) and not st.orelse and isinstance(st.iter, ast.Call) and not st.iter.args and not st.iter.keywords \
                    and isinstance(st.iter.func, ast.Attribute) and _txt(st.iter.func.value) == 'self' and st.iter.func.attr in gens \
                    and isinstance(st.target, ast.Name):
                cls, gfn, prefix, loop = gens[st.iter.func.attr]
                clash = ((set(_locals_of(gfn)) - {'self'}) & (_locals_of_stmts(st.body) | {st.target.id})) if gfn is not None else set()
                yv = loop.body[-1].value.value if gfn is not None else None
                same_var = isinstance(yv, ast.Name) and yv.id == st.target.id
                if same_var:
                    clash.discard(st.target.id)           # the generator's own name for the yielded object is the loop variable: one variable
                if gfn is not None:
                    ren = {c: c + '__' + st.iter.func.attr.strip('_') for c in clash}
                    new_loop = _Subst({}, ren).visit(copy.deepcopy(loop)) if ren else copy.deepcopy(loop)
                    new_prefix = [(_Subst({}, ren).visit(x) if ren else x) for x in copy.deepcopy(prefix)]
                    yield_stmt = new_loop.body.pop()
                    new_loop.body = [RetToBreak().visit(x) for x in new_loop.body]
                    if not same_var:
                        new_loop.body.append(ast.copy_location(ast.Assign(targets=[ast.Name(id=st.target.id, ctx=ast.Store())], value=yield_stmt.value.value,
                                                                          lineno=yield_stmt.lineno), yield_stmt))
                    new_loop.body.extend(st.body)
                    for x in new_prefix + [new_loop]:
                        ast.fix_missing_locations(x)
                        out.append(x)
                    count[st.iter.func.attr] = count.get(st.iter.func.attr, 0) + 1
                    continue
            out.append(st)
        return out
    for mname, tree in trees.items():
        for n in tree.body:
            if isinstance(n, ast.ClassDef):
                for m in n.body:
                    if isinstance(m, ast.FunctionDef) and m.name not in gens:
                        m.body = block(m.body, n.name)
    for name, k in count.items():
        cls, gfn, _p, _l = gens[name]
        refs = sum(1 for tree in trees.values() for x in ast.walk(tree) if isinstance(x, ast.Attribute) and x.attr == name)
        if refs == 0:
            for tree in trees.values():
                for n in tree.body:
                    if isinstance(n, ast.ClassDef) and gfn in n.body:
                        n.body.remove(gfn)
        log.append(f'N2 generator {cls}.{name} inlined into {k} for-loop(s)' + ('; definition dropped' if refs == 0 else ''))


def _locals_of_stmts(stmts):
    out = set()
    for st in stmts:
        for n in _walk_shallow(st):
            if isinstance(n, ast.Name) and isinstance(n.ctx, (ast.Store, ast.Del)):
                out.add(n.id)
    return out


def inline_helpers(trees, base, log):
    # collect definitions program wide
    defs = {}             # name -> [(mname, cls|None, fn)]
    bases = {}
    for mname, tree in trees.items():
        for n in tree.body:
            if isinstance(n, (ast.FunctionDef, ast.AsyncFunctionDef)):
                defs.setdefault(n.name, []).append((mname, None, n))
            elif isinstance(n, ast.ClassDef):
                bs = []
                for b in n.bases:
                    bs.append(b.id if isinstance(b, ast.Name) else b.attr if isinstance(b, ast.Attribute) else
                              (b.value.id if isinstance(b, ast.Subscript) and isinstance(b.value, ast.Name) else _txt(b)))
                bases[n.name] = bs
                for m in n.body:
                    if isinstance(m, (ast.FunctionDef, ast.AsyncFunctionDef)):
                        defs.setdefault(m.name, []).append((mname, n.name, m))

    def ancestors(c, seen=None):
        seen = seen or set()
        for b in bases.get(c, []):
            if b not in seen:
                seen.add(b)
                ancestors(b, seen)
        return seen
    subclasses = {}
    for c in bases:
        subclasses.setdefault(c, set()).add(c)
        for a in ancestors(c):
            subclasses.setdefault(a, set()).add(c)
    # new helpers of the same name in unrelated classes (`_si_of` in Quantity and in SI): told apart by a class suffix when every use is
    # `self.<name>` inside a class that has exactly one of the definitions among its ancestors
    for name, ds in list(defs.items()):
        if len(ds) < 2 or any(cls is None for (_m, cls, _f) in ds):
            continue
        if any(cls in base.get(mn, {}).get('classes', {}) and name in base[mn]['classes'][cls]['methods'] for (mn, cls, _f) in ds):
            continue
        owners = {cls for (_m, cls, _f) in ds}
        if len(owners) != len(ds) or any((ancestors(c) & owners) for c in owners):
            continue
        plan = []
        okn = True
        for mn, tree in trees.items():
            for n in tree.body:
                if isinstance(n, ast.ClassDef):
                    mine = ({n.name} | ancestors(n.name)) & owners
                    for x in ast.walk(n):
                        if isinstance(x, ast.Attribute) and x.attr == name:
                            if len(mine) == 1 and isinstance(x.value, ast.Name) and x.value.id == 'self':
                                plan.append((x, next(iter(mine))))
                            else:
                                okn = False
                        elif isinstance(x, ast.Constant) and x.value == name:
                            okn = False
                else:
                    for x in ast.walk(n):
                        if (isinstance(x, ast.Attribute) and x.attr == name) or (isinstance(x, ast.Name) and x.id == name):
                            okn = False
        if not okn:
            continue
        for (x, owner) in plan:
            x.attr = f'{name}__{owner}'
        del defs[name]
        for (mn, cls, fn) in ds:
            fn.name = f'{name}__{cls}'
            defs[fn.name] = [(mn, cls, fn)]
    helpers = {}
    for name, ds in defs.items():
        if len(ds) != 1:
            continue
        mname, cls, fn = ds[0]
        b = base.get(mname)
        if b is None:
            continue
        if cls is None:
            if name in b['funcs']:
                continue
        else:
            if cls in b['classes'] and name in b['classes'][cls]['methods']:
                continue
        static = _eligible_helper(fn, cls)
        if static is None:
            continue
        helpers[name] = _Helper(name, fn, cls, mname, static)
    # new read-only properties with a single `return <expr>`: `self.<name>` -> the expression
    for name, ds in defs.items():
        if len(ds) != 1:
            continue
        mname, cls, fn = ds[0]
        b = base.get(mname)
        if b is None or cls is None or (cls in b['classes'] and name in b['classes'][cls]['methods']):
            continue
        if [_txt(d) for d in fn.decorator_list] != ['property']:
            continue
        body = _body(fn)
        if len(body) != 1 or not isinstance(body[0], ast.Return) or body[0].value is None:
            continue
        # a setter for the same name would be a second definition (len(ds) != 1), so this is read-only
        expr = body[0].value
        if any(isinstance(x, (ast.Yield, ast.Await, ast.Lambda)) for x in ast.walk(expr)):
            continue
        count = 0
        for tmod, tree in trees.items():
            for n in tree.body:
                if isinstance(n, ast.ClassDef) and n.name in subclasses.get(cls, ()):
                    for m in n.body:
                        if isinstance(m, (ast.FunctionDef, ast.AsyncFunctionDef)) and m is not fn:
                            rep = _ReplaceLoads(lambda node, name=name, expr=expr: expr if isinstance(node, ast.Attribute) and node.attr == name
                                                and _txt(node.value) == 'self' else None)
                            rep.visit(m)
                            count += rep.count
        if count:
            refs = sum(1 for tree in trees.values() for x in ast.walk(tree) if isinstance(x, ast.Attribute) and x.attr == name)
            if refs == 0:
                for tree in trees.values():
                    for n in tree.body:
                        if isinstance(n, ast.ClassDef) and fn in n.body:
                            n.body.remove(fn)
                            if not n.body:
                                n.body.append(ast.Pass())
            log.append(f'N2 {mname}: property {cls}.{name} = {_txt(expr)} inlined at {count} read(s)' + ('; definition dropped' if refs == 0 else ''))
    if not helpers:
        return
    inl = _Inliner(helpers, None, subclasses, log)
    for _pass in range(4):
        changed = False
        for mname, tree in trees.items():
            for n in tree.body:
                if isinstance(n, (ast.FunctionDef, ast.AsyncFunctionDef)):
                    before = sum(inl.inlined.values())
                    inl.inline_exprs(n, None)
                    changed |= inl.inline_stmts(n, None) or sum(inl.inlined.values()) != before
                elif isinstance(n, ast.ClassDef):
                    for m in n.body:
                        if isinstance(m, (ast.FunctionDef, ast.AsyncFunctionDef)):
                            before = sum(inl.inlined.values())
                            inl.inline_exprs(m, n.name)
                            changed |= inl.inline_stmts(m, n.name) or sum(inl.inlined.values()) != before
        # helpers changed by inlining of nested helpers: refresh their summaries
        for h in list(helpers.values()):
            helpers[h.name] = _Helper(h.name, h.fn, h.cls, h.mname, h.static)
        inl.helpers = helpers
        if not changed:
            break
    # remove helper definitions that are no longer referenced
    for name, h in helpers.items():
        if not inl.inlined.get(name):
            continue
        refs = 0
        for tree in trees.values():
            for x in ast.walk(tree):
                if (isinstance(x, ast.Attribute) and x.attr == name) or (isinstance(x, ast.Name) and x.id == name) \
                        or (isinstance(x, ast.Constant) and x.value == name):        # e.g. listed in __all__
                    refs += 1
        if refs == 0:
            for tree in trees.values():
                for n in tree.body:
                    if n is h.fn:
                        tree.body.remove(n)
                    elif isinstance(n, ast.ClassDef) and h.fn in n.body:
                        n.body.remove(h.fn)
            log.append(f'N2 {h.mname}: helper {(h.cls + ".") if h.cls else ""}{name} inlined at {inl.inlined[name]} site(s); definition dropped')
        else:
            log.append(f'N2 {h.mname}: helper {(h.cls + ".") if h.cls else ""}{name} inlined at {inl.inlined[name]} site(s); {refs} other reference(s) remain')


# =================================================================================================== N3 / N4 locals
def _pure_read(e, allow_attr=True):
    """expression without side effects: names, constants, attribute / subscript reads, arithmetic, comparisons, pure builtins"""
    if isinstance(e, (ast.Name, ast.Constant)):
        return True
    if isinstance(e, ast.Attribute):
        return allow_attr and _pure_read(e.value)
    if isinstance(e, ast.Subscript):
        return allow_attr and _pure_read(e.value) and _pure_read(e.slice)
    if isinstance(e, ast.UnaryOp):
        return _pure_read(e.operand, allow_attr)
    if isinstance(e, ast.BinOp):
        return _pure_read(e.left, allow_attr) and _pure_read(e.right, allow_attr)
    if isinstance(e, ast.Tuple):
        return all(_pure_read(x, allow_attr) for x in e.elts)
    if isinstance(e, ast.IfExp):
        return _pure_read(e.test, allow_attr) and _pure_read(e.body, allow_attr) and _pure_read(e.orelse, allow_attr)
    if isinstance(e, ast.BoolOp):
        return all(_pure_read(x, allow_attr) for x in e.values)
    if isinstance(e, ast.Compare):
        return _pure_read(e.left, allow_attr) and all(_pure_read(x, allow_attr) for x in e.comparators)
    if isinstance(e, ast.Slice):
        return all(x is None or _pure_read(x, allow_attr) for x in (e.lower, e.upper, e.step))
    if isinstance(e, ast.Call) and isinstance(e.func, ast.Attribute) and isinstance(e.func.value, ast.Name) and e.func.value.id not in ('self', 'cls') \
            and e.func.attr in PURE_STR_METHODS and not e.keywords:
        return all(_pure_read(a, allow_attr) for a in e.args)        # str / tuple query methods on a plain name
    if isinstance(e, ast.Call) and _txt(e.func) in PURE_CALLS and not e.keywords:
        return all(_pure_read(a, allow_attr) for a in e.args)        # pure builtin
    if allow_attr and isinstance(e, ast.Call) and isinstance(e.func, ast.Attribute) and e.func.attr in OBSERVERS and not e.keywords:
        return _pure_read(e.func.value, allow_attr) and all(_pure_read(a, allow_attr) for a in e.args)    # state-reading method
    return False


def strip_pure_memos(trees, base, log):
    """N10.  A per-object memo -- a new field bound to an empty dict in the constructor, read and written in one method only, where every
    value stored under a key is a pure function of the key and of fields only constructors bind -- answers exactly what the expression
    answers.  The method is rewritten as if the memo were always empty: `self.M.get(k)` -> None, `k in self.M` -> False, the stores are
    dropped.  A memo that is not per object (class level) or not pure is left alone, for the rules to see."""
    attr_rebound, item_rebound = _rebound_attrs(trees)
    props = _property_backing(trees)

    def pure(e, keyvars):
        for x in ast.walk(e):
            if isinstance(x, ast.Call):
                f = _txt(x.func)
                if not (f.startswith('math.') or (f in PURE_CALLS and not f.startswith(('print', 'logger', 'traceback')))) or x.keywords:
                    return False
            elif isinstance(x, ast.Name):
                if isinstance(x.ctx, ast.Load) and x.id not in keyvars and x.id not in ('self', 'math', 'float', 'int', 'abs', 'min', 'max', 'len', 'round'):
                    return False
            elif isinstance(x, (ast.Lambda, ast.ListComp, ast.GeneratorExp, ast.SetComp, ast.DictComp, ast.Await, ast.Yield, ast.YieldFrom, ast.NamedExpr,
                                ast.Subscript, ast.Starred)):
                return False
        return _stable_attr_paths(e, props, family_rebound[0], family_rebound[1])

    all_classes = {c.name: c for t in trees.values() for c in t.body if isinstance(c, ast.ClassDef)}

    def family(cname):
        """the class, its ancestors and its descendants (the objects whose methods run on the same `self`)"""
        fam = set()

        def up(n):
            if n in fam or n not in all_classes:
                return
            fam.add(n)
            for b_ in all_classes[n].bases:
                up(_txt(b_).split('[')[0].split('.')[-1])
        up(cname)
        changed = True
        while changed:
            changed = False
            for n, cd in all_classes.items():
                if n not in fam and any(_txt(b_).split('[')[0].split('.')[-1] in fam and _txt(b_).split('[')[0].split('.')[-1] in
                                        ({cname} | desc) for b_ in cd.bases):
                    fam.add(n)
                    desc.add(n)
                    changed = True
        return fam

    def rebound_in(fam):
        """(attributes, item containers) re-bound outside constructors by methods of the family, or through a receiver other than self anywhere"""
        ar, ir = set(), set()
        for t2 in trees.values():
            for cd in [x for x in t2.body if isinstance(x, ast.ClassDef)] + [None]:
                fns_ = [f for f in (cd.body if cd is not None else t2.body) if isinstance(f, (ast.FunctionDef, ast.AsyncFunctionDef))]
                for f in fns_:
                    for x in ast.walk(f):
                        tgt = None
                        if isinstance(x, ast.Attribute) and isinstance(x.ctx, (ast.Store, ast.Del)):
                            tgt, into = x, ar
                        elif isinstance(x, ast.Subscript) and isinstance(x.ctx, (ast.Store, ast.Del)) and isinstance(x.value, ast.Attribute):
                            tgt, into = x.value, ir
                        elif isinstance(x, ast.Call) and isinstance(x.func, ast.Attribute) and isinstance(x.func.value, ast.Attribute) \
                                and x.func.attr in ('pop', 'popitem', 'clear', 'update', 'setdefault', 'remove', 'insert', 'sort', 'reverse', 'append', 'extend'):
                            tgt, into = x.func.value, ir
                        if tgt is None:
                            continue
                        own = _txt(tgt.value) == 'self'
                        if own and (cd is None or cd.name not in fam):
                            continue                  # another kind of object
                        if own and f.name in ('__init__', '__new__') and into is ar:
                            continue
                        into.add(tgt.attr)
        return ar, ir

    family_rebound = [set(), set()]
    desc = set()
    for mname, tree in trees.items():
        b = base.get(mname, {'consts': [], 'funcs': {}, 'classes': {}})
        for c in [c for c in tree.body if isinstance(c, ast.ClassDef)]:
            desc.clear()
            family_rebound[:] = [None, None]
            init = next((m for m in c.body if isinstance(m, ast.FunctionDef) and m.name == '__init__'), None)
            if init is None:
                continue
            known_fields = set(base.get('__attrs__', []))
            for st in list(_body(init)):
                tg = st.targets[0] if isinstance(st, ast.Assign) and len(st.targets) == 1 else (st.target if isinstance(st, ast.AnnAssign) else None)
                val = getattr(st, 'value', None)
                if not (isinstance(tg, ast.Attribute) and _txt(tg.value) == 'self' and val is not None
                        and ((isinstance(val, ast.Dict) and not val.keys) or (isinstance(val, ast.Call) and _txt(val.func) == 'dict' and not val.args and not val.keywords))):
                    continue
                M = tg.attr
                if M in known_fields:
                    continue
                if family_rebound[0] is None:
                    family_rebound[:] = rebound_in(family(c.name))
                # every other mention of the attribute name, anywhere
                uses = []
                for t2 in trees.values():
                    for fn in ast.walk(t2):
                        if isinstance(fn, (ast.FunctionDef, ast.AsyncFunctionDef)):
                            for x in _walk_shallow(fn):
                                if isinstance(x, ast.Attribute) and x.attr == M and x is not tg:
                                    uses.append((fn, x))
                    for cc in t2.body:
                        if isinstance(cc, ast.ClassDef):
                            for s2 in cc.body:
                                if any(isinstance(t, ast.Name) and t.id == M for t in (s2.targets if isinstance(s2, ast.Assign) else [getattr(s2, 'target', None)])):
                                    uses.append((cc, s2))
                fns = {id(f): f for f, _x in uses}
                if len(fns) != 1:
                    continue
                fn = next(iter(fns.values()))
                if not isinstance(fn, ast.FunctionDef) or fn is init or fn not in c.body:
                    continue
                if any(_txt(x.value) != 'self' for _f, x in uses):
                    continue
                # classify each use
                gets, ins, loads, stores = [], [], [], []
                ok = True
                parents = {}
                for p in ast.walk(fn):
                    for ch in ast.iter_child_nodes(p):
                        parents[id(ch)] = p
                for _f, x in uses:
                    p = parents.get(id(x))
                    if isinstance(p, ast.Attribute) and p.attr == 'get' and isinstance(parents.get(id(p)), ast.Call) and parents[id(p)].func is p \
                            and len(parents[id(p)].args) == 1 and not parents[id(p)].keywords:
                        gets.append(parents[id(p)])
                    elif isinstance(p, ast.Compare) and len(p.ops) == 1 and isinstance(p.ops[0], (ast.In, ast.NotIn)) and p.comparators[0] is x:
                        ins.append(p)
                    elif isinstance(p, ast.Subscript) and p.value is x and isinstance(p.ctx, ast.Load):
                        loads.append(p)
                    elif isinstance(p, ast.Subscript) and p.value is x and isinstance(p.ctx, ast.Store):
                        stores.append(p)
                    else:
                        ok = False
                if not ok or not stores or (loads and not ins):
                    continue
                keyvars = set()
                for k in [g.args[0] for g in gets] + [i.left for i in ins] + [l.slice for l in loads] + [s_.slice for s_ in stores]:
                    if not _pure_read(k, allow_attr=False):
                        ok = False
                    keyvars |= {n.id for n in ast.walk(k) if isinstance(n, ast.Name)}
                params = {a.arg for a in fn.args.args}
                rebound_keys = any(isinstance(n, ast.Name) and isinstance(n.ctx, ast.Store) and n.id in keyvars for n in ast.walk(fn))
                if not ok or not keyvars <= params or rebound_keys or len({_txt(k) for k in [g.args[0] for g in gets] + [i.left for i in ins] + [l.slice for l in loads]
                                                                            + [s_.slice for s_ in stores]}) != 1:
                    continue
                # every stored value: a pure function of the key and stable fields (a local is followed to the assignment in front of the store)
                store_stmts = []

                def find_block(stmts):
                    for i, s2 in enumerate(stmts):
                        if isinstance(s2, ast.Assign) and any(t is sp for t in s2.targets for sp in stores):
                            store_stmts.append((stmts, i, s2))
                        for fld in ('body', 'orelse', 'finalbody'):
                            sub = getattr(s2, fld, None)
                            if isinstance(sub, list) and sub and isinstance(sub[0], ast.stmt):
                                find_block(sub)
                find_block(fn.body)
                if len(store_stmts) != len(stores):
                    continue
                values = []
                for (stmts, i, s2) in store_stmts:
                    if len(s2.targets) != 1:
                        ok = False
                        break
                    v = s2.value
                    if isinstance(v, ast.Name):
                        prev = stmts[i - 1] if i > 0 else None
                        nm, pv = _single_name_assign(prev) if prev is not None else (None, None)
                        if nm != v.id:
                            ok = False
                            break
                        v = pv
                    if not pure(v, keyvars):
                        ok = False
                        break
                    values.append(v)
                if not ok or len({_txt(v) for v in values}) != 1:
                    continue
                # loads `self.M[k]` are only allowed where the key is known to be present: rewritten to the pure expression itself
                value = values[0]
                repl = {}
                for g in gets:
                    repl[id(g)] = ast.Constant(value=None)
                for i_ in ins:
                    repl[id(i_)] = ast.Constant(value=isinstance(i_.ops[0], ast.NotIn))
                for l in loads:
                    repl[id(l)] = copy.deepcopy(value)

                class _R(ast.NodeTransformer):
                    def generic_visit(self, node):
                        super().generic_visit(node)
                        r = repl.get(id(node))
                        return ast.copy_location(r, node) if r is not None else node

                for (stmts, i, s2) in store_stmts:
                    stmts[i] = ast.copy_location(ast.Pass(), s2)
                _R().visit(fn)
                fn.body = _simplify_block(fn.body)
                init.body.remove(st)
                if not init.body:
                    init.body.append(ast.Pass())
                log.append(f'N10 {mname}: per-object memo {c.name}.{M} of {fn.name}() is pure (value `{_txt(value)[:50]}` of the key and constructor-bound fields): removed')


def inline_bound_method_fields(trees, base, log):
    """N11.  A new field that only ever holds a bound method of another field's object (`self.A = self.G.m` in the constructor, G bound
    by the constructor only) and is re-bound the same way at the end of a `__setstate__` that otherwise is the default one
    (`self.__dict__.update(state)`) is, for every object however it was created (constructed, copied, unpickled), that method of its own
    G: `self.A(..)` is `self.G.m(..)`.  The stores and the then-default `__setstate__` are dropped.  Without such a `__setstate__` a deep
    copy keeps the method bound to the original's G (bound builtin methods are copied atomically): nothing is rewritten then."""
    known_attrs = set(base.get('__attrs__', []))
    for mname, tree in trees.items():
        for c in [c for c in tree.body if isinstance(c, ast.ClassDef)]:
            meths = {m.name: m for m in c.body if isinstance(m, ast.FunctionDef)}
            init, sst = meths.get('__init__'), meths.get('__setstate__')
            if init is None or sst is None or len(sst.args.args) != 2:
                continue
            st_param = sst.args.args[1].arg
            stores = {}                   # A -> [(fn, stmt)]
            other_g_stores = set()
            for m in meths.values():
                for x in ast.walk(m):
                    if isinstance(x, (ast.Assign, ast.AnnAssign)) and getattr(x, 'value', None) is not None:
                        for t in (x.targets if isinstance(x, ast.Assign) else [x.target]):
                            if isinstance(t, ast.Attribute) and _txt(t.value) == 'self':
                                stores.setdefault(t.attr, []).append((m, x))
                                if m.name not in ('__init__',):
                                    other_g_stores.add(t.attr)
            strings = {x.value for x in ast.walk(c) if isinstance(x, ast.Constant) and isinstance(x.value, str)}
            cands = {}
            for A, sts in stores.items():
                if A in known_attrs or A in strings:
                    continue
                vals = {_txt(x.value) for (_m, x) in sts}
                if len(vals) != 1:
                    continue
                v = sts[0][1].value
                if not (isinstance(v, ast.Attribute) and isinstance(v.value, ast.Attribute) and _txt(v.value.value) == 'self'):
                    continue
                G = v.value.attr
                if G in other_g_stores or G == A or {m.name for (m, _x) in sts} != {'__init__', '__setstate__'}:
                    continue
                if any(len(x.targets) != 1 for (_m, x) in sts if isinstance(x, ast.Assign)):
                    continue
                cands[A] = (v, sts)
            if not cands:
                continue
            # __setstate__: the default restore, then the re-bindings -- nothing else, in that order
            body = _body(sst)
            rest = [x for x in body if not any(x is sx for (_v, sts) in cands.values() for (_m, sx) in sts)]
            default = len(rest) == 1 and isinstance(rest[0], ast.Expr) and _txt(rest[0].value) == f'self.__dict__.update({st_param})'
            if not default or body[0] is not rest[0]:
                continue
            # every other use of the field is a load through self
            ok = True
            for A in cands:
                for x in ast.walk(c):
                    if isinstance(x, ast.Attribute) and x.attr == A and not (_txt(x.value) == 'self' and (isinstance(x.ctx, ast.Load) or any(
                            x is (sx.targets[0] if isinstance(sx, ast.Assign) else sx.target) for (_m, sx) in cands[A][1]))):
                        ok = False
                for t2 in trees.values():
                    for x in ast.walk(t2):
                        if isinstance(x, ast.Attribute) and x.attr == A and not any(x is y for y in ast.walk(c)):
                            ok = False
            if not ok:
                continue
            for A, (v, sts) in cands.items():
                for (m, sx) in sts:
                    for blk in [m.body] + [getattr(y, f) for y in ast.walk(m) for f in ('body', 'orelse', 'finalbody') if isinstance(getattr(y, f, None), list)]:
                        if sx in blk:
                            blk.remove(sx)
                            if not blk:
                                blk.append(ast.copy_location(ast.Pass(), sx))

                def match(node, A=A, v=v):
                    return v if isinstance(node, ast.Attribute) and node.attr == A and _txt(node.value) == 'self' else None
                _ReplaceLoads(match).visit(c)
                log.append(f'N11 {mname}: {c.name}.{A} always is the bound method `{_txt(v)}` of the object\'s own {v.value.attr} (constructor and __setstate__): inlined')
            c.body.remove(sst)


def expand_seeded_generators(trees, log):
    """`self.G = Random(x)`  ->  `self.G = Random(); self.G.seed(x)`: random.Random.__init__(x) is documented to do exactly `self.seed(x)`."""
    n = 0

    def block(stmts):
        nonlocal n
        out = []
        for st in stmts:
            for field in ('body', 'orelse', 'finalbody'):
                v = getattr(st, field, None)
                if isinstance(v, list) and v and isinstance(v[0], ast.stmt) and not isinstance(st, ast.ClassDef):
                    setattr(st, field, block(v))
            if isinstance(st, ast.Try):
                for h in st.handlers:
                    h.body = block(h.body)
            val = getattr(st, 'value', None)
            tg = (st.targets[0] if isinstance(st, ast.Assign) and len(st.targets) == 1 else st.target if isinstance(st, ast.AnnAssign) else None)
            if isinstance(st, (ast.Assign, ast.AnnAssign)) and isinstance(val, ast.Call) and _txt(val.func) in ('Random', 'random.Random') and len(val.args) == 1 \
                    and not val.keywords and isinstance(tg, ast.Attribute) and _txt(tg.value) == 'self' and _atomic(val.args[0]):
                arg = val.args[0]
                val.args = []
                out.append(st)
                call = ast.Expr(value=ast.Call(func=ast.Attribute(value=ast.Attribute(value=ast.Name(id='self', ctx=ast.Load()), attr=tg.attr, ctx=ast.Load()),
                                                                  attr='seed', ctx=ast.Load()), args=[arg], keywords=[]))
                ast.copy_location(call, st)
                ast.fix_missing_locations(call)
                out.append(call)
                n += 1
                continue
            out.append(st)
        return out
    for tree in trees.values():
        for fn in ast.walk(tree):
            if isinstance(fn, (ast.FunctionDef, ast.AsyncFunctionDef)):
                fn.body = block(fn.body)
    if n:
        log.append(f'N6 {n} generator(s) created with a seed argument written as creation + seed(..)')


def drop_sound_stamp_guards(trees, base, log):
    """N12.  `if self.S != <counter>: <refresh>` where the refresh recomputes the memo fields from the object's state and every method that
    changes that state advances the counter or resets the stamp / the memo (pdsa/memos.py): the memo always holds what the refresh would
    compute, so the refresh is made unconditional.  The stamp and the memo fields stay (they are plain fields now)."""
    from . import memos
    known_attrs = set(base.get('__attrs__', []))
    for memo in memos.find_stamped(trees):
        if memo.stamp in known_attrs or memo.deps is None:
            continue
        if memos.check_stamped(memo, trees):
            continue
        st = memo.guard_if
        block = st.body if isinstance(st.test.ops[0], (ast.NotEq, ast.IsNot)) else st.orelse
        other = st.orelse if block is st.body else st.body
        if other:
            continue
        for parent in ast.walk(memo.guard_fn):
            for field in ('body', 'orelse', 'finalbody'):
                v = getattr(parent, field, None)
                if isinstance(v, list) and st in v:
                    i = v.index(st)
                    v[i:i + 1] = block
                    log.append(f'N12 {memo.guard_cls}.{memo.guard_fn.name}: memo {sorted(memo.value_fields)} stamped with {_txt(memo.src)} is sound '
                               f'(every change of {sorted(memo.deps)} advances or resets it): refresh made unconditional')
                    break


def refold_exact_type_fast_paths(trees, base, log):
    """N13.  `if type(x) is C: x.h(args) else: x.m(args)`, where C.m is: refusals, then `self.h(<its own parameters>)`, and every refusal
    of C.m (parameters replaced by the arguments) is literally one of the refusals the enclosing function has already passed: for an
    object that is exactly a C the fast path does what x.m(args) does, so the statement is x.m(args).  (`isinstance(x, C)` instead of the
    exact type also takes the fast path for subclasses that override m: not rewritten.)"""
    classes = {c.name: c for t in trees.values() for c in t.body if isinstance(c, ast.ClassDef)}

    def guards_of(stmts):
        out = []
        for st in stmts:
            if isinstance(st, ast.If) and not st.orelse and len(st.body) == 1 and isinstance(st.body[0], ast.Raise):
                out.append(st)
        return out

    def block(stmts, passed):
        for i, st in enumerate(list(stmts)):
            for field in ('body', 'orelse', 'finalbody'):
                v = getattr(st, field, None)
                if isinstance(v, list) and v and isinstance(v[0], ast.stmt) and not isinstance(st, (ast.FunctionDef, ast.AsyncFunctionDef, ast.ClassDef)):
                    block(v, passed + [_txt(g.test) for g in guards_of(stmts[:i])])
            if not (isinstance(st, ast.If) and isinstance(st.test, ast.Compare) and len(st.test.ops) == 1 and isinstance(st.test.ops[0], (ast.Is, ast.Eq))
                    and len(st.body) == 1 and len(st.orelse) == 1):
                continue
            l, r = st.test.left, st.test.comparators[0]
            if not (isinstance(l, ast.Call) and _txt(l.func) == 'type' and len(l.args) == 1 and isinstance(l.args[0], ast.Name) and isinstance(r, ast.Name) and r.id in classes):
                continue
            x, C = l.args[0].id, classes[r.id]
            fast, slow = st.body[0], st.orelse[0]
            if not all(isinstance(b, ast.Expr) and isinstance(b.value, ast.Call) and isinstance(b.value.func, ast.Attribute) and _txt(b.value.func.value) == x
                       and not b.value.keywords for b in (fast, slow)):
                continue
            if [_txt(a) for a in fast.value.args] != [_txt(a) for a in slow.value.args] or not all(_atomic(a) for a in slow.value.args):
                continue
            h, m = fast.value.func.attr, slow.value.func.attr
            cm = next((f for f in C.body if isinstance(f, ast.FunctionDef) and f.name == m), None)
            if cm is None or any(f.name == h and not isinstance(f, ast.FunctionDef) for f in C.body if hasattr(f, 'name')):
                continue
            body = _body(cm)
            gs = guards_of(body)
            if len(body) != len(gs) + 1 or body[:len(gs)] != gs:
                continue
            last = body[-1]
            params = [a.arg for a in cm.args.args[1:]]
            if not (isinstance(last, ast.Expr) and isinstance(last.value, ast.Call) and isinstance(last.value.func, ast.Attribute) and last.value.func.attr == h
                    and _txt(last.value.func.value) in ('self', C.name) and [_txt(a) for a in last.value.args] == params and not last.value.keywords):
                continue
            if len(params) != len(slow.value.args):
                continue
            mp = dict(zip(params, slow.value.args))
            have = set(passed + [_txt(g.test) for g in guards_of(stmts[:i])])
            if not all(_txt(_Subst(mp, {}).visit(copy.deepcopy(g.test))) in have for g in gs):
                continue
            stmts[stmts.index(st)] = slow
            log.append(f'N13 exact-type fast path `{x}.{h}(..)` for {C.name} folded back into `{x}.{m}(..)` (its {len(gs)} refusal(s) were passed already)')
    for tree in trees.values():
        for fn in ast.walk(tree):
            if isinstance(fn, (ast.FunctionDef, ast.AsyncFunctionDef)):
                block(fn.body, [])


def unroll_vararg_loops(trees, log):
    """`for x in (A, B): S` where the tuple is what an inlined helper received as *rest (atomic elements): S once per element, in order."""
    n = 0

    def block(stmts):
        nonlocal n
        out = []
        for st in stmts:
            for field in ('body', 'orelse', 'finalbody'):
                v = getattr(st, field, None)
                if isinstance(v, list) and v and isinstance(v[0], ast.stmt) and not isinstance(st, (ast.FunctionDef, ast.AsyncFunctionDef, ast.ClassDef)):
                    setattr(st, field, block(v))
            if isinstance(st, ast.Try):
                for h in st.handlers:
                    h.body = block(h.body)
            if isinstance(st, ast.For) and isinstance(st.iter, ast.Tuple) and getattr(st.iter, '_pdsa_from_vararg', False) and isinstance(st.target, ast.Name) \
                    and not st.orelse and not any(isinstance(x, (ast.Break, ast.Continue)) for b in st.body for x in ast.walk(b)) \
                    and not any(isinstance(x, ast.Name) and x.id == st.target.id and isinstance(x.ctx, ast.Store) for b in st.body for x in ast.walk(b)):
                for el in st.iter.elts:
                    for b in st.body:
                        nb = _Subst({st.target.id: el}, {}).visit(copy.deepcopy(b))
                        ast.fix_missing_locations(nb)
                        out.append(nb)
                n += 1
                continue
            out.append(st)
        return out
    for tree in trees.values():
        for fn in ast.walk(tree):
            if isinstance(fn, (ast.FunctionDef, ast.AsyncFunctionDef)):
                fn.body = block(fn.body) or [ast.Pass()]
    if n:
        log.append(f'N7 {n} loop(s) over the *rest arguments of an inlined helper unrolled')


def unfold_functional_idioms(trees, log):
    """`a, b = map(f, (x, y))` and `a, b = (E(v) for v in (x, y))`  ->  `a = f(x); b = f(y)` (unpacking consumes the iterator in order);
    `t = math.prod((E for v in IT), start=S)` / `t = sum((E for v in IT), S)`  ->  `t = S; for v in IT: t *= E` / `t += E` (the library
    functions fold from the start value, left to right)."""
    n = 0

    def block(stmts):
        nonlocal n
        out = []
        for st in stmts:
            for field in ('body', 'orelse', 'finalbody'):
                v = getattr(st, field, None)
                if isinstance(v, list) and v and isinstance(v[0], ast.stmt) and not isinstance(st, (ast.FunctionDef, ast.AsyncFunctionDef, ast.ClassDef)):
                    setattr(st, field, block(v))
            if isinstance(st, ast.Try):
                for h in st.handlers:
                    h.body = block(h.body)
            tgt = st.targets[0] if isinstance(st, ast.Assign) and len(st.targets) == 1 else (st.target if isinstance(st, ast.AnnAssign) and st.value is not None else None)
            val = getattr(st, 'value', None)
            if isinstance(tgt, (ast.Tuple, ast.List)) and isinstance(val, ast.Call) and _txt(val.func) == 'map' and len(val.args) == 2 and not val.keywords \
                    and isinstance(val.args[1], (ast.Tuple, ast.List)) and len(val.args[1].elts) == len(tgt.elts) and _atomic(val.args[0]) \
                    and all(_pure_read(e) for e in val.args[1].elts):
                for t, e in zip(tgt.elts, val.args[1].elts):
                    call = ast.Call(func=copy.deepcopy(val.args[0]), args=[e], keywords=[])
                    out.append(ast.copy_location(ast.Assign(targets=[t], value=call, lineno=st.lineno), st))
                n += 1
                continue
            if isinstance(tgt, (ast.Tuple, ast.List)) and isinstance(val, ast.GeneratorExp) and len(val.generators) == 1 and not val.generators[0].ifs \
                    and isinstance(val.generators[0].target, ast.Name) and isinstance(val.generators[0].iter, (ast.Tuple, ast.List)) \
                    and len(val.generators[0].iter.elts) == len(tgt.elts) and all(_pure_read(e) for e in val.generators[0].iter.elts):
                g = val.generators[0]
                for t, e in zip(tgt.elts, g.iter.elts):
                    out.append(ast.copy_location(ast.Assign(targets=[t], value=_Subst({g.target.id: e}, {}).visit(copy.deepcopy(val.elt)), lineno=st.lineno), st))
                n += 1
                continue
            if isinstance(tgt, ast.Name) and isinstance(val, ast.Call) and _txt(val.func) in ('math.prod', 'sum') and val.args \
                    and isinstance(val.args[0], (ast.GeneratorExp, ast.ListComp)) and len(val.args[0].generators) == 1 and not val.args[0].generators[0].ifs:
                gen = val.args[0]
                g = gen.generators[0]
                start = None
                if len(val.args) == 2 and not val.keywords:
                    start = val.args[1]
                elif len(val.args) == 1 and len(val.keywords) == 1 and val.keywords[0].arg == 'start':
                    start = val.keywords[0].value
                elif len(val.args) == 1 and not val.keywords:
                    start = ast.Constant(value=1 if _txt(val.func) == 'math.prod' else 0)
                uses_t = any(isinstance(x, ast.Name) and x.id == tgt.id for x in ast.walk(gen))
                if start is not None and _pure_read(start) and not uses_t:
                    out.append(ast.copy_location(ast.Assign(targets=[ast.Name(id=tgt.id, ctx=ast.Store())], value=start, lineno=st.lineno), st))
                    aug = ast.AugAssign(target=ast.Name(id=tgt.id, ctx=ast.Store()), op=ast.Mult() if _txt(val.func) == 'math.prod' else ast.Add(), value=gen.elt)
                    loop = ast.For(target=g.target, iter=g.iter, body=[aug], orelse=[], type_comment=None)
                    ast.copy_location(loop, st)
                    ast.copy_location(aug, st)
                    out.append(loop)
                    n += 1
                    continue
            out.append(st)
        for x in out:
            ast.fix_missing_locations(x)
        return out
    for tree in trees.values():
        for fn in ast.walk(tree):
            if isinstance(fn, (ast.FunctionDef, ast.AsyncFunctionDef)):
                fn.body = block(fn.body)
    if n:
        log.append(f'N4 {n} functional idiom(s) (map / generator unpacking, math.prod / sum over a generator) written as the statements they stand for')


def materialise_inherited_methods(trees, base, log):
    """A method the baseline class defined itself and that the class now inherits from a base class (the implementation moved up, for
    instance as a default of the interface) is copied back into the class: an inherited method runs on the same object."""
    classes = {c.name: (mn, c) for mn, t in trees.items() for c in t.body if isinstance(c, ast.ClassDef)}

    def find(cname, m, seen=()):
        if cname not in classes or cname in seen:
            return None
        c = classes[cname][1]
        for f in c.body:
            if isinstance(f, ast.FunctionDef) and f.name == m:
                body = _body(f)
                abstract = any(_txt(d).endswith('abstractmethod') for d in f.decorator_list) or not body or \
                    (len(body) == 1 and isinstance(body[0], (ast.Pass, ast.Raise)) or (len(body) == 1 and isinstance(body[0], ast.Expr) and isinstance(body[0].value, ast.Constant)))
                return None if abstract else f
        for b_ in c.bases:
            r = find(_txt(b_).split('[')[0].split('.')[-1], m, seen + (cname,))
            if r is not None:
                return r
        return None
    for mn, tree in trees.items():
        b = base.get(mn)
        if not b:
            continue
        for c in [c for c in tree.body if isinstance(c, ast.ClassDef) and c.name in b.get('classes', {})]:
            have = {f.name for f in c.body if isinstance(f, ast.FunctionDef)}
            for m in b['classes'][c.name].get('methods', {}):
                if m in have or (m.startswith('__') and m.endswith('__')):
                    continue
                src = None
                for b_ in c.bases:
                    src = find(_txt(b_).split('[')[0].split('.')[-1], m)
                    if src is not None:
                        break
                if src is None or any(isinstance(x, ast.Call) and _txt(x.func) == 'super' for x in ast.walk(src)):
                    continue
                f2 = copy.deepcopy(src)
                f2.decorator_list = [d for d in f2.decorator_list if not _txt(d).endswith('abstractmethod')]
                c.body.append(f2)
                log.append(f'N2 {mn}: {c.name}.{m} is now inherited (implementation moved to a base class): copied back into {c.name}')


def strip_lock_blocks(trees, base, log):
    """`with self.L: BODY` where L is a new field bound to `threading.Lock()` / `RLock()` in the constructor  ->  BODY.  The rules decide what
    one thread does; mutual exclusion changes nothing of that.  (What runs while the lock is held -- a callback that can re-enter -- is a
    rule of its own, read in the source as written.)"""
    known = set(base.get('__attrs__', []))
    n = 0
    for tree in trees.values():
        for c in [c for c in tree.body if isinstance(c, ast.ClassDef)]:
            locks = set()
            for x in ast.walk(c):
                if isinstance(x, (ast.Assign, ast.AnnAssign)) and isinstance(getattr(x, 'value', None), ast.Call) \
                        and _txt(x.value.func) in ('threading.Lock', 'threading.RLock', 'Lock', 'RLock') and not x.value.args:
                    for t in (x.targets if isinstance(x, ast.Assign) else [x.target]):
                        if isinstance(t, ast.Attribute) and _txt(t.value) == 'self' and t.attr not in known:
                            locks.add(t.attr)
            if not locks:
                continue

            def block(stmts):
                nonlocal n
                out = []
                for st in stmts:
                    for field in ('body', 'orelse', 'finalbody'):
                        v = getattr(st, field, None)
                        if isinstance(v, list) and v and isinstance(v[0], ast.stmt) and not isinstance(st, (ast.FunctionDef, ast.AsyncFunctionDef, ast.ClassDef)):
                            setattr(st, field, block(v))
                    if isinstance(st, ast.Try):
                        for h in st.handlers:
                            h.body = block(h.body)
                    if isinstance(st, ast.With) and len(st.items) == 1 and st.items[0].optional_vars is None and isinstance(st.items[0].context_expr, ast.Attribute) \
                            and _txt(st.items[0].context_expr.value) == 'self' and st.items[0].context_expr.attr in locks:
                        out.extend(st.body)
                        n += 1
                        continue
                    out.append(st)
                return out
            for m in c.body:
                if isinstance(m, (ast.FunctionDef, ast.AsyncFunctionDef)):
                    m.body = block(m.body)
    if n:
        log.append(f'N6 {n} `with self.<lock>:` block(s) of a new threading lock replaced by their body (single-thread reading)')


def _paths_read(e):
    """texts of the attribute / subscript access paths read by e"""
    out = set()
    for x in ast.walk(e):
        if isinstance(x, (ast.Attribute, ast.Subscript)):
            out.add(_txt(x))
    return out


def _rebound_attrs(trees):
    """(attribute names re-bound outside constructors, attribute names whose items are re-bound outside constructors)"""
    attr_rebound, item_rebound = set(), set()
    for tree in trees.values():
        for fn in ast.walk(tree):
            if isinstance(fn, (ast.FunctionDef, ast.AsyncFunctionDef)) and fn.name not in ('__init__', '__new__'):
                for x in _walk_shallow(fn):
                    if isinstance(x, ast.Attribute) and isinstance(x.ctx, (ast.Store, ast.Del)):
                        attr_rebound.add(x.attr)
                    elif isinstance(x, ast.Subscript) and isinstance(x.ctx, (ast.Store, ast.Del)) and isinstance(x.value, ast.Attribute):
                        item_rebound.add(x.value.attr)
                    elif isinstance(x, ast.Call) and isinstance(x.func, ast.Attribute) and isinstance(x.func.value, ast.Attribute) \
                            and x.func.attr in ('pop', 'popitem', 'clear', 'update', 'setdefault', 'remove', 'insert', 'sort', 'reverse'):
                        item_rebound.add(x.func.value.attr)
    return attr_rebound, item_rebound


def _stable_attr_paths(e, props, attr_rebound, item_rebound, private_locals=()):
    """every attribute read in e is a field only constructors bind (or a property returning one); items only of containers whose
    items are bound by constructors only"""
    for x in ast.walk(e):
        if isinstance(x, ast.Call) and isinstance(x.func, ast.Attribute) and x.func.attr in OBSERVERS:
            return False                  # the value of a state-reading call changes with the state
        if isinstance(x, ast.Subscript):
            v = x.value
            if isinstance(v, ast.Name) and v.id in private_locals:
                continue                      # a local container nobody else can reach
            if not isinstance(v, ast.Attribute) or v.attr in item_rebound:
                return False
        if isinstance(x, ast.Attribute):
            a = x.attr
            backing = props.get(a)
            if backing is None:
                if a in attr_rebound:
                    return False
            else:
                if any(bk is None or bk in attr_rebound for bk in backing):
                    return False
    return True


def _simple_getters(trees):
    """method name -> field name for zero-argument methods that are `return self.<field>` in every class defining them"""
    out = {}
    bad = set()
    for tree in trees.values():
        for c in ast.walk(tree):
            if isinstance(c, ast.ClassDef):
                for m in c.body:
                    if isinstance(m, ast.FunctionDef) and not any(_txt(d) == 'property' for d in m.decorator_list):
                        b = _body(m)
                        if any(_txt(d) == 'abstractmethod' for d in m.decorator_list) or not b or (len(b) == 1 and isinstance(b[0], (ast.Pass, ast.Raise))):
                            continue
                        if len(m.args.args) == 1 and len(b) == 1 and isinstance(b[0], ast.Return) and isinstance(b[0].value, ast.Attribute) \
                                and _txt(b[0].value.value) == 'self':
                            if out.setdefault(m.name, b[0].value.attr) != b[0].value.attr:
                                bad.add(m.name)
                        else:
                            bad.add(m.name)
    return {k: v for k, v in out.items() if k not in bad}


class _GetterCalls(ast.NodeTransformer):
    def __init__(self, getters):
        self.getters = getters

    def visit_Call(self, node):
        self.generic_visit(node)
        if not node.args and not node.keywords and isinstance(node.func, ast.Attribute) and node.func.attr in self.getters \
                and _txt(node.func.value) == 'self':
            return ast.copy_location(ast.Attribute(value=node.func.value, attr=self.getters[node.func.attr], ctx=ast.Load()), node)
        return node


def _property_backing(trees):
    """property name -> [backing field name | None] over all classes defining it"""
    out = {}
    for tree in trees.values():
        for c in ast.walk(tree):
            if isinstance(c, ast.ClassDef):
                for m in c.body:
                    if isinstance(m, ast.FunctionDef) and any(_txt(d) == 'property' for d in m.decorator_list):
                        b = _body(m)
                        bk = None
                        if len(b) == 1 and isinstance(b[0], ast.Return) and isinstance(b[0].value, ast.Attribute) and _txt(b[0].value.value) == 'self':
                            bk = b[0].value.attr
                        if not b or (len(b) == 1 and isinstance(b[0], (ast.Pass, ast.Raise))) or any(_txt(d) == 'abstractmethod' for d in m.decorator_list):
                            continue                                     # abstract declaration
                        out.setdefault(m.name, []).append(bk)
    return out


def _flat_positions(fn):
    """statement -> (index in pre-order, enclosing loop statements)"""
    pos = {}
    counter = [0]

    def walk(stmts, loops):
        for st in stmts:
            pos[id(st)] = (counter[0], tuple(loops))
            counter[0] += 1
            inner = loops + [st] if isinstance(st, (ast.For, ast.While, ast.AsyncFor)) else loops
            for field in ('body', 'orelse', 'finalbody'):
                v = getattr(st, field, None)
                if isinstance(v, list) and not isinstance(st, (ast.FunctionDef, ast.AsyncFunctionDef, ast.ClassDef)):
                    walk(v, inner)
            if isinstance(st, ast.Try):
                for h in st.handlers:
                    walk(h.body, inner)
    walk(fn.body, [])
    return pos


def propagate_locals(trees, base, log):
    attr_rebound, item_rebound = _rebound_attrs(trees)
    props = _property_backing(trees)
    getters = _simple_getters(trees)

    def do_fn(fn, known_locals, where, interpreted=False):
        new_locals = _locals_of(fn) - set(known_locals)
        if not new_locals:
            return
        params = {a.arg for a in fn.args.posonlyargs + fn.args.args + fn.args.kwonlyargs}
        stores = {}
        for n in _walk_shallow(fn):
            if isinstance(n, ast.Name) and isinstance(n.ctx, (ast.Store, ast.Del)):
                stores[n.id] = stores.get(n.id, 0) + 1
        pos = _flat_positions(fn)
        # all statements in pre-order with their parent lists
        order = []

        def collect(stmts):
            for st in stmts:
                order.append((st, stmts))
                for field in ('body', 'orelse', 'finalbody'):
                    v = getattr(st, field, None)
                    if isinstance(v, list) and not isinstance(st, (ast.FunctionDef, ast.AsyncFunctionDef, ast.ClassDef)):
                        collect(v)
                if isinstance(st, ast.Try):
                    for h in st.handlers:
                        collect(h.body)
        collect(fn.body)
        for (st, parent) in list(order):
            name, val = _single_name_assign(st)
            if name is None or name not in new_locals or name in params or stores.get(name) != 1:
                continue
            shown = val
            val = _GetterCalls(getters).visit(copy.deepcopy(val))         # self.getter() reads self.<field>
            if not _pure_read(val):
                continue
            if interpreted and any(isinstance(x, (ast.Call, ast.BinOp)) for x in ast.walk(val)):
                continue                      # the numeric interpreter relates a computed value to its guard only through the local
            # names read by the value must not be re-assigned after the definition
            reads = {x.id for x in ast.walk(val) if isinstance(x, ast.Name)}
            if any(stores.get(r, 0) > (0 if r in params else 1) for r in reads if r != 'self'):
                continue
            if any(stores.get(r, 0) >= 1 and r in params for r in reads):
                continue
            my_idx, my_loops = pos[id(st)]
            # every use must come after the definition, in the same or a nested block of the defining block
            uses = []
            ok = True
            later = [s for (s, _p) in order if pos[id(s)][0] > my_idx]
            parent_ids = set()

            def mark(stmts):
                for s in stmts:
                    parent_ids.add(id(s))
                    for field in ('body', 'orelse', 'finalbody'):
                        v = getattr(s, field, None)
                        if isinstance(v, list) and not isinstance(s, (ast.FunctionDef, ast.AsyncFunctionDef, ast.ClassDef)):
                            mark(v)
                    if isinstance(s, ast.Try):
                        for h in s.handlers:
                            mark(h.body)
            mark(parent[parent.index(st) + 1:])
            for (s, _p) in order:
                own = _own_exprs(s)
                if any(isinstance(x, ast.Name) and x.id == name and isinstance(x.ctx, ast.Load) for e in own for x in ast.walk(e)):
                    if id(s) not in parent_ids:
                        ok = False
                    uses.append(s)
            if not ok or not uses:
                continue
            if my_loops and any(pos[id(u)][1][:len(my_loops)] != my_loops for u in uses):
                continue
            last_use = max(pos[id(u)][0] for u in uses)
            between = [s for s in later if pos[id(s)][0] <= last_use]
            # loops: a use inside a loop that does not contain the definition sees later iterations' effects too
            widen = set()
            for u in uses:
                for lp in pos[id(u)][1][len(my_loops):]:
                    widen.add(id(lp))
            if widen:
                for (s, _p) in order:
                    if any(id(lp) in widen for lp in pos[id(s)][1]) and s not in between:
                        between.append(s)
            paths = _paths_read(val)
            has_attr = bool(paths)
            safe = True
            if has_attr:
                # locals bound once to a fresh object and never mutated in this function are private containers
                private = set()
                for (s0, _p0) in order:
                    n0, v0 = _single_name_assign(s0)
                    if n0 and stores.get(n0) == 1 and n0 not in params and isinstance(v0, ast.Call):
                        touched = any((isinstance(x, ast.Subscript) and isinstance(x.ctx, (ast.Store, ast.Del)) and _txt(x.value) == n0) or
                                      (isinstance(x, ast.Call) and isinstance(x.func, ast.Attribute) and _txt(x.func.value) == n0 and
                                       x.func.attr in ('append', 'pop', 'remove', 'insert', 'clear', 'extend', 'sort', 'reverse', 'update', 'setdefault', 'popitem'))
                                      for x in _walk_shallow(fn))
                        if not touched:
                            private.add(n0)
                stable = _stable_attr_paths(val, props, attr_rebound, item_rebound, private)
                for s in between:
                    for e in _own_exprs(s, include_targets=True):
                        enclosing = set()
                        if pos[id(s)][0] == last_use:
                            # in the last use, a call that takes the temporary as an argument runs after the temporary is read
                            for c in ast.walk(e):
                                if isinstance(c, ast.Call) and any(isinstance(y, ast.Name) and y.id == name for a in list(c.args) + [k.value for k in c.keywords] +
                                                                   ([c.func.value] if isinstance(c.func, ast.Attribute) else []) for y in ast.walk(a)):
                                    enclosing.add(id(c))
                                    if isinstance(c.func, ast.Attribute) and any(isinstance(y, ast.Name) and y.id == name for y in ast.walk(c.func.value)):
                                        for a in list(c.args) + [k.value for k in c.keywords]:       # arguments are evaluated after the receiver
                                            for y in ast.walk(a):
                                                enclosing.add(id(y))
                        for x in ast.walk(e):
                            if id(x) in enclosing:
                                continue
                            if isinstance(x, (ast.Attribute, ast.Subscript)) and isinstance(x.ctx, (ast.Store, ast.Del)):
                                t = _txt(x)
                                if any(p == t or p.startswith(t + '.') or p.startswith(t + '[') or t.startswith(p + '[') for p in paths):
                                    safe = False
                            if isinstance(x, ast.Call) and not stable:
                                f = _txt(x.func)
                                if f in PURE_CALLS:
                                    continue
                                if isinstance(x.func, ast.Attribute) and isinstance(x.func.value, ast.Name) and x.func.value.id not in ('self', 'cls') \
                                        and x.func.attr in PURE_STR_METHODS:
                                    continue
                                if isinstance(x.func, ast.Attribute) and x.func.attr in OBSERVERS:
                                    continue              # a state-reading call changes nothing
                                if isinstance(s, ast.Raise) and isinstance(x.func, ast.Name) and (f.endswith('Error') or f.endswith('Exception')):
                                    continue              # constructing the exception that is being raised
                                # a method call on the alias itself (subscribers.append) is the aliased operation
                                if isinstance(x.func, ast.Attribute) and isinstance(x.func.value, ast.Name) and x.func.value.id == name:
                                    continue
                                # calling the alias of a bound method (`draw = self._stream.next_float; draw()`) is that method call: it runs on
                                # the object the path named when the alias was taken, and a method of another object does not re-bind this one's field
                                if isinstance(x.func, ast.Name) and x.func.id == name and isinstance(val, ast.Attribute) and f.count('.') == 0:
                                    continue
                                if f.startswith('math.'):
                                    continue
                                safe = False
            if not safe:
                continue
            rep = _ReplaceLoads(lambda node, name=name, val=shown: val if isinstance(node, ast.Name) and node.id == name else None)
            for u in uses:
                _visit_own(u, rep)
            parent.remove(st)
            if not parent:
                parent.append(ast.copy_location(ast.Pass(), st))
            log.append(f'N3 {where}: temporary {name} = {_txt(shown)} propagated into {rep.count} use(s)')

    for mname, tree in trees.items():
        b = base.get(mname)
        if b is None:
            continue
        for n in tree.body:
            if isinstance(n, (ast.FunctionDef, ast.AsyncFunctionDef)) and n.name in b['funcs']:
                ifexp_to_if(n)
                constant_flag_continuation(n, b['funcs'][n.name], log, f'{mname}.{n.name}')
                chain_to_ifexp(n, b['funcs'][n.name])
                for _i in range(3):
                    before = len(log)
                    do_fn(n, b['funcs'][n.name], f'{mname}.{n.name}', mname in INTERPRETED_MODULES)
                    propagate_adjacent(n, b['funcs'][n.name], log, f'{mname}.{n.name}')
                    if len(log) == before:
                        break
                sink_returns(n, set(b['funcs'][n.name]))
            elif isinstance(n, ast.ClassDef) and n.name in b['classes']:
                for m in n.body:
                    if isinstance(m, (ast.FunctionDef, ast.AsyncFunctionDef)) and m.name in b['classes'][n.name]['methods']:
                        known = b['classes'][n.name]['methods'][m.name]
                        ifexp_to_if(m)
                        for _j in range(3):
                            before_ = len(log)
                            sentinel_continuation(m, known, log, f'{n.name}.{m.name}')
                            constant_flag_continuation(m, known, log, f'{n.name}.{m.name}')
                            if len(log) == before_:
                                break
                        chain_to_ifexp(m, known)
                        unify_repeated_aliases(m, known, attr_rebound, props, log, f'{n.name}.{m.name}')
                        for _i in range(3):
                            before = len(log)
                            do_fn(m, known, f'{n.name}.{m.name}', mname in INTERPRETED_MODULES)
                            propagate_adjacent(m, known, log, f'{n.name}.{m.name}')
                            if len(log) == before:
                                break
                        sink_returns(m, set(known))


def unify_repeated_aliases(fn, known_locals, attr_rebound, props, log, where):
    """a new local bound several times, always to the same chain of constructor-only fields (`job = self._job`, once per inlined
    helper), denotes one object throughout: every load becomes the chain, the bindings go"""
    new_locals = _locals_of(fn) - set(known_locals)
    params = {a.arg for a in fn.args.posonlyargs + fn.args.args + fn.args.kwonlyargs}
    defs = {}
    bad = set()
    for n in _walk_shallow(fn):
        if isinstance(n, (ast.Assign, ast.AnnAssign)):
            name, val = _single_name_assign(n)
            if name is not None:
                defs.setdefault(name, []).append((n, val))
                continue
        if isinstance(n, ast.Name) and isinstance(n.ctx, (ast.Store, ast.Del)):
            pass
    stores = {}
    for n in _walk_shallow(fn):
        if isinstance(n, ast.Name) and isinstance(n.ctx, (ast.Store, ast.Del)):
            stores[n.id] = stores.get(n.id, 0) + 1
    for name, dl in defs.items():
        if name not in new_locals or name in params or len(dl) < 2 or stores.get(name) != len(dl):
            continue
        texts = {_txt(v) for (_n, v) in dl}
        if len(texts) != 1:
            continue
        val = dl[0][1]
        chain = val
        okc = True
        while isinstance(chain, ast.Attribute):
            chain = chain.value
        if not (isinstance(chain, ast.Name) and chain.id == 'self' and isinstance(val, ast.Attribute)):
            continue
        if not _stable_attr_paths(val, props, attr_rebound, set()):
            continue
        # the first binding must come before every use: it is the first statement mentioning the name at all
        first = None

        def preorder(node):
            for ch in ast.iter_child_nodes(node):
                if isinstance(ch, (ast.FunctionDef, ast.AsyncFunctionDef, ast.ClassDef, ast.Lambda)):
                    continue
                yield ch
                yield from preorder(ch)
        for n in preorder(fn):
            if isinstance(n, ast.Name) and n.id == name:
                first = n
                break
        if first is None or not isinstance(first.ctx, ast.Store):
            continue
        ids = {id(n) for (n, _v) in dl}

        def strip(stmts):
            out = []
            for st in stmts:
                if id(st) in ids:
                    continue
                for field in ('body', 'orelse', 'finalbody'):
                    v = getattr(st, field, None)
                    if isinstance(v, list) and v and not isinstance(st, (ast.FunctionDef, ast.AsyncFunctionDef, ast.ClassDef)):
                        setattr(st, field, strip(v) or ([ast.copy_location(ast.Pass(), st)] if field == 'body' else []))
                if isinstance(st, ast.Try):
                    for h in st.handlers:
                        h.body = strip(h.body) or [ast.copy_location(ast.Pass(), st)]
                out.append(st)
            return out
        fn.body = strip(fn.body) or [ast.Pass()]
        rep = _ReplaceLoads(lambda node, name=name, val=val: val if isinstance(node, ast.Name) and node.id == name else None)
        for st in fn.body:
            rep.visit(st)
        log.append(f'N3 {where}: local {name} is {_txt(val)} at each of its {len(dl)} bindings; {rep.count} use(s) replaced')


def _eval_order(e):
    """sub-expressions of e in the order in which their evaluation completes (operands before the operation; only the parts that
    are certainly evaluated: the first operand of and / or, the test of a conditional expression)"""
    if e is None:
        return
    if isinstance(e, (ast.Name, ast.Constant)):
        yield e
    elif isinstance(e, ast.Attribute):
        yield from _eval_order(e.value)
        yield e
    elif isinstance(e, ast.Subscript):
        yield from _eval_order(e.value)
        yield from _eval_order(e.slice)
        yield e
    elif isinstance(e, ast.Slice):
        for x in (e.lower, e.upper, e.step):
            yield from _eval_order(x)
    elif isinstance(e, ast.BinOp):
        yield from _eval_order(e.left)
        yield from _eval_order(e.right)
        yield e
    elif isinstance(e, ast.UnaryOp):
        yield from _eval_order(e.operand)
        yield e
    elif isinstance(e, ast.Compare):
        yield from _eval_order(e.left)
        yield from _eval_order(e.comparators[0])
        yield e
    elif isinstance(e, ast.BoolOp):
        yield from _eval_order(e.values[0])
        yield e
    elif isinstance(e, ast.IfExp):
        yield from _eval_order(e.test)
        yield e
    elif isinstance(e, ast.Call):
        if isinstance(e.func, ast.Attribute):
            yield from _eval_order(e.func.value)
        elif not isinstance(e.func, ast.Name):
            yield from _eval_order(e.func)
        for a in e.args:
            yield from _eval_order(a.value if isinstance(a, ast.Starred) else a)
        for k in e.keywords:
            yield from _eval_order(k.value)
        yield e
    elif isinstance(e, (ast.Tuple, ast.List)):
        for x in e.elts:
            yield from _eval_order(x)
        yield e
    else:
        yield e


def _first_leaf_is(e, name):
    """`name` is loaded before anything with a possible effect (a call, an arithmetic operation on non-literals) is evaluated"""
    for x in _eval_order(e):
        if isinstance(x, ast.Name):
            if x.id == name:
                return True
            continue
        if isinstance(x, (ast.Constant, ast.Attribute, ast.Subscript)) and _pure_read(x):
            continue
        if isinstance(x, ast.BinOp) and _pure_read(x, allow_attr=False):
            continue                          # arithmetic on plain names / literals
        return False
    return False


def propagate_adjacent(fn, known_locals, log, where):
    """`t = <any expression>` immediately followed by the only statement that reads t, which reads it before doing anything else:
    the expression is evaluated at the same moment either way"""
    new_locals = _locals_of(fn) - set(known_locals)
    if not new_locals:
        return
    loads, stores = {}, {}
    for n in _walk_shallow(fn):
        if isinstance(n, ast.Name):
            d = loads if isinstance(n.ctx, ast.Load) else stores
            d[n.id] = d.get(n.id, 0) + 1

    def block(stmts):
        i = 0
        while i < len(stmts):
            st = stmts[i]
            for field in ('body', 'orelse', 'finalbody'):
                v = getattr(st, field, None)
                if isinstance(v, list) and not isinstance(st, (ast.FunctionDef, ast.AsyncFunctionDef, ast.ClassDef)):
                    block(v)
            if isinstance(st, ast.Try):
                for h in st.handlers:
                    block(h.body)
            name, val = _single_name_assign(st)
            if name and name in new_locals and stores.get(name) == 1 and loads.get(name) == 1 and i + 1 < len(stmts):
                nxt = stmts[i + 1]
                own = _own_exprs(nxt)
                target = None
                if isinstance(nxt, (ast.Return, ast.Expr)):
                    target = nxt.value
                elif isinstance(nxt, (ast.Assign, ast.AnnAssign)):
                    target = nxt.value
                elif isinstance(nxt, (ast.If, ast.While)):
                    target = nxt.test if isinstance(nxt, ast.If) else None
                elif isinstance(nxt, ast.For):
                    target = nxt.iter
                if target is not None and own and _first_leaf_is(target, name):
                    rep = _ReplaceLoads(lambda node, name=name, val=val: val if isinstance(node, ast.Name) and node.id == name else None)
                    _visit_own(nxt, rep)
                    if rep.count == 1:
                        del stmts[i]
                        log.append(f'N3 {where}: temporary {name} = {_txt(val)[:60]} moved into its only, adjacent use')
                        continue
            i += 1
    block(fn.body)


def _own_exprs(st, include_targets=False):
    """expressions evaluated by the statement itself (not by nested statements)"""
    out = []
    if isinstance(st, (ast.If, ast.While)):
        out.append(st.test)
    elif isinstance(st, (ast.For, ast.AsyncFor)):
        out.append(st.iter)
        if include_targets:
            out.append(st.target)
    elif isinstance(st, (ast.With, ast.AsyncWith)):
        for it in st.items:
            out.append(it.context_expr)
    elif isinstance(st, ast.Try):
        pass
    elif isinstance(st, (ast.FunctionDef, ast.AsyncFunctionDef, ast.ClassDef)):
        pass
    else:
        out.append(st)
    return out


def _visit_own(st, transformer):
    if isinstance(st, (ast.If, ast.While)):
        st.test = transformer.visit(st.test)
    elif isinstance(st, (ast.For, ast.AsyncFor)):
        st.iter = transformer.visit(st.iter)
    elif isinstance(st, (ast.With, ast.AsyncWith)):
        for it in st.items:
            it.context_expr = transformer.visit(it.context_expr)
    elif isinstance(st, (ast.Try, ast.FunctionDef, ast.AsyncFunctionDef, ast.ClassDef)):
        pass
    else:
        transformer.visit(st)


def constant_flag_continuation(fn, known_locals, log, where):
    """`if c1: v = K1 elif c2: v = K2 else: v = K3` (v a new local, K literals) followed by the rest of the block: the rest is moved
    into every branch with v replaced by its literal, and literal tests are folded.  Bounded: at most 4 branches, 10 statements."""
    new_locals = _locals_of(fn) - set(known_locals)
    if not new_locals:
        return

    def branches(st):
        """[(If node or None for the final else, literal)] or None"""
        out = []
        cur = st
        name = None
        while True:
            if not isinstance(cur, ast.If) or len(cur.body) != 1:
                return None
            n1, v1 = _single_name_assign(cur.body[0])
            if n1 is None or n1 not in new_locals or _num_literal(v1) is None and not (isinstance(v1, ast.Constant)):
                return None
            if name is None:
                name = n1
            elif n1 != name:
                return None
            out.append((cur, v1))
            if len(cur.orelse) == 1 and isinstance(cur.orelse[0], ast.If):
                cur = cur.orelse[0]
                continue
            if len(cur.orelse) == 1:
                n2, v2 = _single_name_assign(cur.orelse[0])
                if n2 != name or (_num_literal(v2) is None and not isinstance(v2, ast.Constant)):
                    return None
                out.append((None, v2))
                return name, out
            return None

    def block(stmts):
        i = 0
        while i < len(stmts):
            st = stmts[i]
            for field in ('body', 'orelse', 'finalbody'):
                v = getattr(st, field, None)
                if isinstance(v, list) and not isinstance(st, (ast.FunctionDef, ast.AsyncFunctionDef, ast.ClassDef)):
                    block(v)
            if isinstance(st, ast.Try):
                for h in st.handlers:
                    block(h.body)
            r = branches(st) if isinstance(st, ast.If) else None
            rest = stmts[i + 1:]
            if r is not None and 1 <= len(rest) <= 10 and len(r[1]) <= 4:
                name, brs = r
                restores = any(isinstance(x, ast.Name) and x.id == name and isinstance(x.ctx, (ast.Store, ast.Del)) for s_ in rest for x in ast.walk(s_))
                if not restores:
                    last_if = None
                    for (node, lit) in brs:
                        if _num_literal(lit) is not None and not isinstance(lit, ast.Constant):
                            v_ = _num_literal(lit)
                            lit = ast.copy_location(ast.UnaryOp(op=ast.USub(), operand=ast.Constant(value=-v_)) if v_ < 0 else ast.Constant(value=v_), lit)
                            ast.fix_missing_locations(lit)
                        cont = copy.deepcopy(rest)
                        rep_ = _ReplaceLoads(lambda nd, name=name, lit=lit: lit if isinstance(nd, ast.Name) and nd.id == name else None)
                        cont = [rep_.visit(x) for x in cont]
                        cont = _simplify_block(cont)
                        if node is not None:
                            node.body = cont or [ast.copy_location(ast.Pass(), node)]
                            last_if = node
                        else:
                            last_if.orelse = cont
                    del stmts[i + 1:]
                    log.append(f'N4 {where}: literal flag {name} folded into the code that follows its {len(brs)} assignments')
                    block(stmts[i:i + 1])
                    return
            i += 1
    block(fn.body)
    ast.fix_missing_locations(fn)


def sentinel_continuation(fn, known_locals, log, where):
    """An if-tree some of whose leaves end in `v = <literal>` (v a new local) while exactly one other leaf computes v, followed by
    code that starts by testing v: the following code moves to the end of every leaf, with v replaced by the literal (and the
    test folded) in the literal leaves.  Same statements on every path, in the same order."""
    new_locals = _locals_of(fn)

    def leaves(st, acc):
        """collect (owner, field) pairs of the leaf blocks of an if / elif / else tree; False when a branch is missing"""
        for field in ('body', 'orelse'):
            blk = getattr(st, field)
            if not blk:
                return False
            if isinstance(blk[-1], ast.If) and blk[-1].orelse:
                if not leaves(blk[-1], acc):
                    return False
                acc.append((st, field, 'prefix'))           # statements before the nested if stay where they are
            else:
                acc.append((st, field, 'leaf'))
        return True

    def block(stmts):
        i = 0
        while i < len(stmts):
            st = stmts[i]
            for field in ('body', 'orelse', 'finalbody'):
                v = getattr(st, field, None)
                if isinstance(v, list) and not isinstance(st, (ast.FunctionDef, ast.AsyncFunctionDef, ast.ClassDef)):
                    block(v)
            if isinstance(st, ast.Try):
                for h in st.handlers:
                    block(h.body)
            rest = stmts[i + 1:]
            if isinstance(st, ast.If) and st.orelse and 1 <= len(rest) <= 12 and isinstance(rest[0], ast.If):
                acc = []
                if leaves(st, acc):
                    lv = [(o, f) for (o, f, k) in acc if k == 'leaf']
                    lit, other = [], []
                    name = None
                    okk = True
                    for (o, f) in lv:
                        blk = getattr(o, f)
                        n1, v1 = _single_name_assign(blk[-1])
                        if n1 is not None and n1 in new_locals and (isinstance(v1, ast.Constant) or _num_literal(v1) is not None) and (name is None or n1 == name):
                            name = n1
                            lit.append((o, f, v1))
                        elif _terminates(blk):
                            continue
                        else:
                            other.append((o, f))
                    tested = name is not None and any(isinstance(x, ast.Name) and x.id == name for x in ast.walk(rest[0].test))
                    stored_later = name is not None and any(isinstance(x, ast.Name) and x.id == name and isinstance(x.ctx, (ast.Store, ast.Del))
                                                            for s_ in rest for x in ast.walk(s_))
                    if lit and len(other) == 1 and tested and not stored_later and len(lv) <= 4:
                        # the computing leaf must bind the name itself (otherwise it carries a value from before the tree)
                        ob = getattr(*other[0])
                        if any(isinstance(x, ast.Name) and x.id == name and isinstance(x.ctx, ast.Store) for s_ in ob for x in ast.walk(s_)):
                            conts = []
                            decided = True
                            for (o, f, v1) in lit:
                                first = copy.deepcopy(rest[0])
                                rep_ = _ReplaceLoads(lambda nd, name=name, v1=v1: v1 if isinstance(nd, ast.Name) and nd.id == name else None)
                                first = rep_.visit(first)
                                if _const_truth(first.test) is None:
                                    decided = False
                                conts.append(_simplify_block([first]))
                            # only a sentinel: in every literal leaf the test that follows is decided by the literal
                            if not decided:
                                i += 1
                                continue
                            for (o, f, v1), cont in zip(lit, conts):
                                blk = getattr(o, f)
                                setattr(o, f, blk + cont)            # the binding stays: the name may be read later
                            o, f = other[0]
                            setattr(o, f, getattr(o, f) + [rest[0]])
                            del stmts[i + 1]                         # the statements after the test stay where they are, common to all leaves
                            log.append(f'N4 {where}: test of the sentinel {name} moved into the {len(lit)} leaf/leaves that set it to a literal (decided there) and the leaf that computes it')
                            block(stmts[i:i + 1])
                            i += 1
                            continue
            i += 1
    block(fn.body)
    ast.fix_missing_locations(fn)


def chain_to_ifexp(fn, known_locals):
    """`if c1: v = a elif c2: v = b else: v = c` (v a new local, every branch that single assignment) -> `v = a if c1 else (b if c2 else c)`"""
    new_locals = _locals_of(fn) - set(known_locals)
    if not new_locals:
        return

    def as_expr(st):
        """(name, expr) when st is such a chain, else None"""
        if not isinstance(st, ast.If) or len(st.body) != 1 or len(st.orelse) != 1:
            return None
        n1, v1 = _single_name_assign(st.body[0])
        if n1 is None or n1 not in new_locals:
            return None
        o = st.orelse[0]
        if isinstance(o, ast.If):
            r = as_expr(o)
            if r is None or r[0] != n1:
                return None
            v2 = r[1]
        else:
            n2, v2 = _single_name_assign(o)
            if n2 != n1:
                return None
        return n1, ast.copy_location(ast.IfExp(test=st.test, body=v1, orelse=v2), st)

    def boolean(e):
        if isinstance(e, ast.Constant):
            return isinstance(e.value, bool)
        if isinstance(e, ast.IfExp):
            return boolean(e.body) and boolean(e.orelse)
        if isinstance(e, ast.UnaryOp) and isinstance(e.op, ast.Not):
            return True
        return isinstance(e, (ast.Compare, ast.BoolOp))

    def block(stmts):
        out = []
        for st in stmts:
            r = as_expr(st)
            if r is not None and not boolean(r[1]):
                r = None                         # only boolean flags; other values are handled by return sinking
            if r is not None:
                out.append(ast.copy_location(ast.Assign(targets=[ast.Name(id=r[0], ctx=ast.Store())], value=r[1], lineno=st.lineno), st))
                continue
            for field in ('body', 'orelse', 'finalbody'):
                v = getattr(st, field, None)
                if isinstance(v, list) and not isinstance(st, (ast.FunctionDef, ast.AsyncFunctionDef, ast.ClassDef)):
                    setattr(st, field, block(v))
            if isinstance(st, ast.Try):
                for h in st.handlers:
                    h.body = block(h.body)
            out.append(st)
        return out
    fn.body = block(fn.body)
    ast.fix_missing_locations(fn)


def _walk_loop_free(node):
    """nodes of a statement that belong to the enclosing loop (does not enter nested loops / functions)"""
    todo = [node]
    while todo:
        n = todo.pop()
        yield n
        for c in ast.iter_child_nodes(n):
            if not isinstance(c, (ast.While, ast.For, ast.FunctionDef, ast.AsyncFunctionDef, ast.ClassDef, ast.Lambda)):
                todo.append(c)


def ifexp_to_if(fn):
    def block(stmts):
        out = []
        for st in stmts:
            for field in ('body', 'orelse', 'finalbody'):
                v = getattr(st, field, None)
                if isinstance(v, list) and not isinstance(st, (ast.FunctionDef, ast.AsyncFunctionDef, ast.ClassDef)):
                    setattr(st, field, block(v))
            if isinstance(st, ast.Try):
                for h in st.handlers:
                    h.body = block(h.body)
            if isinstance(st, ast.For) and isinstance(st.iter, ast.IfExp) and not st.orelse:
                # for x in (A if c else B): body  ->  if c: for x in A: body  else: for x in B: body
                e = st.iter
                f1 = ast.copy_location(ast.For(target=st.target, iter=e.body, body=st.body, orelse=[], type_comment=None), st)
                f2 = ast.copy_location(ast.For(target=copy.deepcopy(st.target), iter=e.orelse, body=copy.deepcopy(st.body), orelse=[], type_comment=None), st)
                new = ast.copy_location(ast.If(test=e.test, body=[f1], orelse=[f2]), st)
                out.extend(_simplify_block([new]))
            elif isinstance(st, ast.While) and isinstance(st.test, ast.Constant) and st.test.value is True and not st.orelse and st.body \
                    and isinstance(st.body[0], ast.If) and not st.body[0].orelse and len(st.body[0].body) == 1 and isinstance(st.body[0].body[0], ast.Break) \
                    and not any(isinstance(x, ast.Continue) for b in st.body[1:] for x in _walk_loop_free(b)):
                # while True: if c: break; rest   ->   while not c: rest
                c = st.body[0].test
                test = c.operand if isinstance(c, ast.UnaryOp) and isinstance(c.op, ast.Not) else ast.UnaryOp(op=ast.Not(), operand=c)
                out.append(ast.copy_location(ast.While(test=test, body=st.body[1:] or [ast.copy_location(ast.Pass(), st)], orelse=[]), st))
            elif isinstance(st, ast.Return) and isinstance(st.value, ast.IfExp):
                e = st.value
                new = ast.If(test=e.test, body=[ast.copy_location(ast.Return(value=e.body), st)], orelse=[ast.copy_location(ast.Return(value=e.orelse), st)])
                out.extend(block([ast.copy_location(new, st)]))
            elif isinstance(st, ast.Assign) and isinstance(st.value, ast.IfExp) and len(st.targets) == 1 and _atomic(st.targets[0]):
                e = st.value
                new = ast.If(test=e.test, body=[ast.copy_location(ast.Assign(targets=[copy.deepcopy(st.targets[0])], value=e.body, lineno=st.lineno), st)],
                             orelse=[ast.copy_location(ast.Assign(targets=[copy.deepcopy(st.targets[0])], value=e.orelse, lineno=st.lineno), st)])
                out.extend(block([ast.copy_location(new, st)]))
            else:
                out.append(st)
        return out
    fn.body = block(fn.body)
    ast.fix_missing_locations(fn)


def sink_returns(fn, known_locals):
    """`if c: v = a else: v = b` + `return v` (v a new local) -> returns in the branches"""
    new_locals = _locals_of(fn) - known_locals

    def sink(stmts):
        changed = True
        while changed:
            changed = False
            if len(stmts) >= 2 and isinstance(stmts[-1], ast.Return) and isinstance(stmts[-1].value, ast.Name) and stmts[-1].value.id in new_locals \
                    and isinstance(stmts[-2], ast.If):
                ret = stmts.pop()
                iff = stmts[-1]
                iff.body = iff.body + [copy.deepcopy(ret)]
                iff.orelse = iff.orelse + [copy.deepcopy(ret)]
                changed = True
        for st in stmts:
            for field in ('body', 'orelse', 'finalbody'):
                v = getattr(st, field, None)
                if isinstance(v, list) and not isinstance(st, (ast.FunctionDef, ast.AsyncFunctionDef, ast.ClassDef)):
                    sink(v)
        # v = X; return v  ->  return X
        i = 0
        while i + 1 < len(stmts):
            a, b = stmts[i], stmts[i + 1]
            name, val = _single_name_assign(a)
            if name and name in new_locals and isinstance(b, ast.Return) and isinstance(b.value, ast.Name) and b.value.id == name:
                stmts[i:i + 2] = [ast.copy_location(ast.Return(value=val), a)]
                continue
            i += 1
    sink(fn.body)
    # an initialisation `v = X` at the top followed by branches that now all return: fold `return v` with the reaching constant
    body = fn.body
    for i, st in enumerate(list(body)):
        name, val = _single_name_assign(st)
        if name and name in new_locals and isinstance(val, ast.Constant):
            # every later store to `name` is immediately followed by a return (already rewritten) -> remaining loads see `val`
            stores = [x for x in _walk_shallow(fn) if isinstance(x, ast.Name) and x.id == name and isinstance(x.ctx, ast.Store)]
            if len(stores) == 1:
                rep = _ReplaceLoads(lambda node, name=name, val=val: val if isinstance(node, ast.Name) and node.id == name else None)
                for other in body:
                    if other is not st:
                        rep.visit(other)
                body.remove(st)
    ast.fix_missing_locations(fn)


# =================================================================================================== N5 match statements
def _match_compile(subject, pat):
    """(test expression | True, [(captured name, expression)]) equivalent to `case pat` against the pure expression `subject`; None = unsupported.
    Supported: literals, singletons, wildcard, captures, `P as name`, class patterns with keyword sub-patterns, the empty mapping pattern,
    or-patterns without captures, sequence patterns of fixed length against a tuple display of the same length."""
    def isinst(x, cls):
        return ast.Call(func=ast.Name(id='isinstance', ctx=ast.Load()), args=[copy.deepcopy(x), cls], keywords=[])

    def conj(parts):
        parts = [p for p in parts if p is not True]
        if not parts:
            return True
        return parts[0] if len(parts) == 1 else ast.BoolOp(op=ast.And(), values=parts)
    if isinstance(pat, ast.MatchValue):
        return ast.Compare(left=copy.deepcopy(subject), ops=[ast.Eq()], comparators=[pat.value]), []
    if isinstance(pat, ast.MatchSingleton):
        return ast.Compare(left=copy.deepcopy(subject), ops=[ast.Is()], comparators=[ast.Constant(value=pat.value)]), []
    if isinstance(pat, ast.MatchAs):
        if pat.pattern is None:
            return True, ([] if pat.name is None else [(pat.name, copy.deepcopy(subject))])
        r = _match_compile(subject, pat.pattern)
        if r is None:
            return None
        return r[0], r[1] + ([(pat.name, copy.deepcopy(subject))] if pat.name else [])
    if isinstance(pat, ast.MatchClass) and not pat.patterns:
        tests, binds = [isinst(subject, pat.cls)], []
        for attr, sp in zip(pat.kwd_attrs, pat.kwd_patterns):
            r = _match_compile(ast.Attribute(value=copy.deepcopy(subject), attr=attr, ctx=ast.Load()), sp)
            if r is None:
                return None
            tests.append(r[0])
            binds += r[1]
        return conj(tests), binds
    if isinstance(pat, ast.MatchMapping) and not pat.keys and pat.rest is None:
        return isinst(subject, ast.Attribute(value=ast.Attribute(value=ast.Name(id='collections', ctx=ast.Load()), attr='abc', ctx=ast.Load()), attr='Mapping', ctx=ast.Load())), []
    if isinstance(pat, ast.MatchOr):
        parts = [_match_compile(subject, p) for p in pat.patterns]
        if any(p is None or p[0] is True or p[1] for p in parts):
            return None
        if all(isinstance(p, ast.MatchClass) and not p.patterns and not p.kwd_patterns for p in pat.patterns):
            return isinst(subject, ast.Tuple(elts=[p.cls for p in pat.patterns], ctx=ast.Load())), []        # isinstance(x, (A, B))
        return ast.BoolOp(op=ast.Or(), values=[p[0] for p in parts]), []
    if isinstance(pat, ast.MatchSequence) and isinstance(subject, ast.Tuple) and len(pat.patterns) == len(subject.elts) \
            and not any(isinstance(p, ast.MatchStar) for p in pat.patterns):
        tests, binds = [], []
        for el, sp in zip(subject.elts, pat.patterns):
            r = _match_compile(el, sp)
            if r is None:
                return None
            tests.append(r[0])
            binds += r[1]
        return conj(tests), binds
    return None


def match_to_if(trees, log):
    if not hasattr(ast, 'Match'):
        return

    def block(stmts):
        out = []
        for st in stmts:
            for field in ('body', 'orelse', 'finalbody'):
                v = getattr(st, field, None)
                if isinstance(v, list) and v and isinstance(v[0], ast.stmt):
                    setattr(st, field, block(v))
            if isinstance(st, ast.Try):
                for h in st.handlers:
                    h.body = block(h.body)
            if isinstance(st, ast.Match):
                for c in st.cases:
                    c.body = block(c.body)
                subj = st.subject
                pure_subj = _atomic(subj) or (isinstance(subj, ast.Tuple) and all(_atomic(x) for x in subj.elts))
                if not pure_subj:
                    out.append(st)
                    continue
                compiled = [_match_compile(subj, c.pattern) for c in st.cases]
                if any(t is None for t in compiled):
                    out.append(st)
                    continue
                chain = None
                for (t, binds), c in reversed(list(zip(compiled, st.cases))):
                    test = t
                    if c.guard is not None:
                        g = _Subst({n: e for n, e in binds}, {}).visit(copy.deepcopy(c.guard))
                        test = g if test is True else ast.BoolOp(op=ast.And(), values=[test, g])
                    body = [ast.copy_location(ast.Assign(targets=[ast.Name(id=n, ctx=ast.Store())], value=copy.deepcopy(e), lineno=c.pattern.lineno), c.pattern)
                            for n, e in binds] + list(c.body)
                    if test is True:
                        chain = body
                    elif chain and _terminates(chain) and not _terminates(body) and not any(isinstance(x, ast.If) for x in chain) and c.guard is None:
                        # `case P: B   case _: raise`  ->  the guard clause `if not P: raise`, then B
                        node = ast.copy_location(ast.If(test=ast.UnaryOp(op=ast.Not(), operand=test), body=chain, orelse=[]), st)
                        chain = [node] + body
                    else:
                        node = ast.copy_location(ast.If(test=test, body=body, orelse=chain or []), st)
                        chain = [node]
                for x in chain or []:
                    ast.fix_missing_locations(x)
                out.extend(chain or [])
                log.append(f'N5 match statement at line {st.lineno} rewritten as an if / elif chain')
            else:
                out.append(st)
        return out
    for tree in trees.values():
        for n in ast.walk(tree):
            if isinstance(n, (ast.FunctionDef, ast.AsyncFunctionDef)):
                n.body = block(n.body)


def refinement_chains(trees, log):
    """N5b.  `if X and G: B1  elif X: B2  else: B3` (B3 ends in raise / return; X pure)  ->  `if not X: B3`, then `if not G: B2` + B1 when B2
    ends in raise / return, else `if G: B1 else: B2`.  X is evaluated first and G only when X holds, exactly as in the chain.  This is
    the guard-clause form of a `match` with a guarded and an unguarded case of the same pattern."""
    n = 0

    def pure_test(e):
        return all(isinstance(x, (ast.Call, ast.Name, ast.Attribute, ast.Constant, ast.BoolOp, ast.And, ast.Or, ast.Load, ast.Tuple, ast.Compare, ast.Is, ast.IsNot,
                                  ast.Eq, ast.NotEq, ast.UnaryOp, ast.Not)) and (not isinstance(x, ast.Call) or _txt(x.func) in ('isinstance', 'type'))
                   for x in ast.walk(e))

    def rewrite(st):
        """[statements] replacing the If `st`, or None"""
        if not (isinstance(st.test, ast.BoolOp) and isinstance(st.test.op, ast.And) and len(st.test.values) >= 2):
            return None
        if not (len(st.orelse) == 1 and isinstance(st.orelse[0], ast.If)):
            return None
        second = st.orelse[0]
        if not second.orelse:
            return None
        for k in range(len(st.test.values) - 1, 0, -1):
            xs, gs = st.test.values[:k], st.test.values[k:]
            X = xs[0] if len(xs) == 1 else ast.BoolOp(op=ast.And(), values=xs)
            if _txt(X) == _txt(second.test) and pure_test(X):
                G = gs[0] if len(gs) == 1 else ast.BoolOp(op=ast.And(), values=gs)
                B1, B2, B3 = st.body, second.body, second.orelse
                if not _terminates(B3):
                    # B3 falls through: keep the nesting, `if X: (if G: B1 else: B2) else: B3`
                    inner = ast.copy_location(ast.If(test=G, body=B1, orelse=B2), st)
                    return [ast.copy_location(ast.If(test=copy.deepcopy(X), body=[inner], orelse=B3), st)]
                out = [ast.copy_location(ast.If(test=ast.UnaryOp(op=ast.Not(), operand=copy.deepcopy(X)), body=B3, orelse=[]), st)]
                if _terminates(B2):
                    out.append(ast.copy_location(ast.If(test=ast.UnaryOp(op=ast.Not(), operand=G), body=B2, orelse=[]), st))
                    out.extend(B1)
                else:
                    out.append(ast.copy_location(ast.If(test=G, body=B1, orelse=B2), st))
                return out
        return None

    def block(stmts):
        nonlocal n
        out = []
        for st in stmts:
            for field in ('body', 'orelse', 'finalbody'):
                v = getattr(st, field, None)
                if isinstance(v, list) and v and isinstance(v[0], ast.stmt) and not isinstance(st, (ast.FunctionDef, ast.AsyncFunctionDef, ast.ClassDef)):
                    setattr(st, field, block(v))
            if isinstance(st, ast.Try):
                for h in st.handlers:
                    h.body = block(h.body)
            if isinstance(st, ast.If):
                r = rewrite(st)
                if r is not None:
                    n += 1
                    for x in r:
                        ast.fix_missing_locations(x)
                    out.extend(r)
                    continue
            out.append(st)
        return out
    for tree in trees.values():
        for fn in ast.walk(tree):
            if isinstance(fn, (ast.FunctionDef, ast.AsyncFunctionDef)):
                fn.body = _simplify_block(block(fn.body))
    if n:
        log.append(f'N5b {n} refinement chain(s) `if X and G .. elif X .. else ..` written as guard clauses')


# =================================================================================================== N6 no-op statements and conversions
LOG_METHODS = {'debug', 'info', 'warning', 'warn', 'error', 'critical', 'exception', 'log'}


def _side_effect_free(e):
    """no call other than pure builtins / str methods, no walrus, no await / yield"""
    for x in ast.walk(e):
        if isinstance(x, (ast.NamedExpr, ast.Await, ast.Yield, ast.YieldFrom, ast.Lambda)):
            return False
        if isinstance(x, ast.Call):
            f = _txt(x.func)
            if f in PURE_CALLS or f in ('type', 'id', 'getattr', 'hasattr'):
                continue
            if isinstance(x.func, ast.Attribute) and x.func.attr in PURE_STR_METHODS:
                continue
            return False
    return True


def _known_type(e, returns):
    """'bool' | 'int' | 'float' | None : type an expression certainly has"""
    if isinstance(e, ast.Name):
        return returns.get(('param', e.id))
    if isinstance(e, ast.Attribute) and isinstance(e.value, ast.Name) and e.value.id == 'self':
        return returns.get(('field', e.attr))
    if isinstance(e, ast.Constant):
        return 'bool' if isinstance(e.value, bool) else 'int' if isinstance(e.value, int) else 'float' if isinstance(e.value, float) else None
    if isinstance(e, (ast.Compare, ast.BoolOp)) or (isinstance(e, ast.UnaryOp) and isinstance(e.op, ast.Not)):
        if isinstance(e, ast.BoolOp):
            return 'bool' if all(_known_type(v, returns) == 'bool' for v in e.values) else None
        return 'bool'
    if isinstance(e, ast.Call):
        f = _txt(e.func)
        if f in ('bool', 'isinstance', 'hasattr', 'callable', 'math.isnan', 'math.isinf', 'math.isfinite'):
            return 'bool'
        if f in ('int', 'len', 'math.floor', 'math.ceil', 'zlib.crc32', 'ord', 'hash', 'id'):
            return 'int'
        if f in ('float', 'math.sqrt', 'math.log', 'math.exp', 'math.pow', 'math.erf', 'math.log1p', 'math.fabs'):
            return 'float'
        if f == 'abs' and len(e.args) == 1:
            return _known_type(e.args[0], returns)
        if isinstance(e.func, ast.Attribute) and e.func.attr == 'random' and not e.args:
            return 'float'
        if isinstance(e.func, ast.Attribute):
            r = returns.get(e.func.attr)
            if r in ('bool', 'int', 'float'):
                return r
    if isinstance(e, ast.BinOp):
        if isinstance(e.op, ast.Div):
            return 'float'
        a, b = _known_type(e.left, returns), _known_type(e.right, returns)
        if isinstance(e.op, (ast.Add, ast.Sub, ast.Mult)):
            if 'float' in (a, b) and a in ('int', 'float') and b in ('int', 'float'):
                return 'float'
            if a == b == 'int':
                return 'int'
    if isinstance(e, ast.UnaryOp) and isinstance(e.op, (ast.USub, ast.UAdd)):
        return _known_type(e.operand, returns)
    return None


def strip_noops(trees, base, log):
    """logging calls and assert statements with side-effect-free arguments are dropped; `bool(e)` / `int(e)` / `float(e)` around an
    expression that certainly has that type is e.  (Assertions are treated as comments: python -O semantics.)"""
    # return annotations by method name (only when every definition of the name agrees)
    returns, clash = {}, set()
    for tree in trees.values():
        for fn in ast.walk(tree):
            if isinstance(fn, (ast.FunctionDef, ast.AsyncFunctionDef)) and fn.returns is not None:
                r = _txt(fn.returns)
                if returns.setdefault(fn.name, r) != r:
                    clash.add(fn.name)
    returns = {k: v for k, v in returns.items() if k not in clash}
    counts = {'log': 0, 'assert': 0, 'conv': 0}
    # class-level field annotations `_n: int` (inherited along the bases)
    own, bases_of = {}, {}
    for tree in trees.values():
        for c in tree.body:
            if isinstance(c, ast.ClassDef):
                own[c.name] = {m.target.id: _txt(m.annotation) for m in c.body if isinstance(m, ast.AnnAssign) and isinstance(m.target, ast.Name)
                               and _txt(m.annotation) in ('bool', 'int', 'float')}
                bases_of[c.name] = [b.id for b in c.bases if isinstance(b, ast.Name)]
    field_types = {}

    def collect(c, seen=()):
        out = {}
        for b in bases_of.get(c, []):
            if b not in seen:
                out.update(collect(b, seen + (c,)))
        out.update(own.get(c, {}))
        return out
    for c in own:
        field_types[c] = collect(c)

    class Conv(ast.NodeTransformer):
        def __init__(self, env):
            self.env = env

        def visit_Call(self, node):
            self.generic_visit(node)
            f = _txt(node.func)
            if f in ('bool', 'int', 'float') and len(node.args) == 1 and not node.keywords and _known_type(node.args[0], self.env) == f:
                counts['conv'] += 1
                return node.args[0]
            ops2 = {'operator.add': ast.Add, 'operator.sub': ast.Sub, 'operator.mul': ast.Mult, 'operator.truediv': ast.Div, 'operator.floordiv': ast.FloorDiv,
                    'operator.mod': ast.Mod, 'operator.pow': ast.Pow}
            cmp2 = {'operator.lt': ast.Lt, 'operator.le': ast.LtE, 'operator.gt': ast.Gt, 'operator.ge': ast.GtE, 'operator.eq': ast.Eq, 'operator.ne': ast.NotEq}
            if f in ops2 and len(node.args) == 2 and not node.keywords:
                counts['conv'] += 1
                return ast.copy_location(ast.BinOp(left=node.args[0], op=ops2[f](), right=node.args[1]), node)
            if f in cmp2 and len(node.args) == 2 and not node.keywords:
                counts['conv'] += 1
                return ast.copy_location(ast.Compare(left=node.args[0], ops=[cmp2[f]()], comparators=[node.args[1]]), node)
            if f == 'operator.neg' and len(node.args) == 1:
                return ast.copy_location(ast.UnaryOp(op=ast.USub(), operand=node.args[0]), node)
            # slot wrappers of the float base class called directly (`float.__lt__(a, b)`): the operation on the float values of the operands
            if f.startswith('float.__') and f.endswith('__') and not node.keywords:
                slot = f[len('float.'):]
                fl = lambda x: x if (isinstance(x, ast.Call) and _txt(x.func) == 'float') else ast.copy_location(
                    ast.Call(func=ast.Name(id='float', ctx=ast.Load()), args=[x], keywords=[]), x)
                SLOT_CMP = {'__lt__': ast.Lt, '__le__': ast.LtE, '__gt__': ast.Gt, '__ge__': ast.GtE, '__eq__': ast.Eq, '__ne__': ast.NotEq}
                SLOT_BIN = {'__add__': ast.Add, '__sub__': ast.Sub, '__mul__': ast.Mult, '__truediv__': ast.Div, '__floordiv__': ast.FloorDiv, '__mod__': ast.Mod,
                            '__pow__': ast.Pow}
                if slot in SLOT_CMP and len(node.args) == 2:
                    counts['conv'] += 1
                    return ast.copy_location(ast.Compare(left=fl(node.args[0]), ops=[SLOT_CMP[slot]()], comparators=[fl(node.args[1])]), node)
                if slot in SLOT_BIN and len(node.args) == 2:
                    counts['conv'] += 1
                    return ast.copy_location(ast.BinOp(left=fl(node.args[0]), op=SLOT_BIN[slot](), right=fl(node.args[1])), node)
                if slot == '__neg__' and len(node.args) == 1:
                    counts['conv'] += 1
                    return ast.copy_location(ast.UnaryOp(op=ast.USub(), operand=fl(node.args[0])), node)
                if slot == '__abs__' and len(node.args) == 1:
                    counts['conv'] += 1
                    return ast.copy_location(ast.Call(func=ast.Name(id='abs', ctx=ast.Load()), args=[fl(node.args[0])], keywords=[]), node)
                if slot == '__float__' and len(node.args) == 1:
                    return fl(node.args[0])
            return node

        def visit_Compare(self, node):
            self.generic_visit(node)
            # a literal on the left of a single ordering comparison: `0 < x`  ->  `x > 0`
            flip = {ast.Lt: ast.Gt, ast.LtE: ast.GtE, ast.Gt: ast.Lt, ast.GtE: ast.LtE}
            if len(node.ops) == 1 and type(node.ops[0]) in flip and isinstance(node.left, ast.Constant) and not isinstance(node.comparators[0], ast.Constant):
                return ast.copy_location(ast.Compare(left=node.comparators[0], ops=[flip[type(node.ops[0])]()], comparators=[node.left]), node)
            # classes are compared by identity either way: `type(a) is not type(b)`  ->  `type(a) != type(b)`
            if len(node.ops) == 1 and isinstance(node.ops[0], (ast.Is, ast.IsNot)) and all(
                    isinstance(x, ast.Call) and _txt(x.func) == 'type' and len(x.args) == 1 for x in (node.left, node.comparators[0])):
                node.ops = [ast.Eq() if isinstance(node.ops[0], ast.Is) else ast.NotEq()]
            return node

    def block(stmts, known_calls):
        out = []
        for st in stmts:
            for field in ('body', 'orelse', 'finalbody'):
                v = getattr(st, field, None)
                if isinstance(v, list) and v and isinstance(v[0], ast.stmt) and not isinstance(st, (ast.FunctionDef, ast.AsyncFunctionDef, ast.ClassDef)):
                    setattr(st, field, block(v, known_calls) or ([ast.copy_location(ast.Pass(), st)] if field == 'body' else []))
            if isinstance(st, ast.Try):
                for h in st.handlers:
                    h.body = block(h.body, known_calls) or [ast.copy_location(ast.Pass(), st)]
            if isinstance(st, ast.Expr) and isinstance(st.value, ast.Call) and isinstance(st.value.func, ast.Attribute) \
                    and st.value.func.attr in LOG_METHODS and _txt(st.value.func.value) in ('logger', 'logging', 'log', '_logger', 'LOGGER') \
                    and all(_side_effect_free(a) for a in list(st.value.args) + [k.value for k in st.value.keywords]) \
                    and _txt(st.value) not in known_calls:
                counts['log'] += 1
                continue
            if isinstance(st, ast.Assert) and _side_effect_free(st.test) and (st.msg is None or _side_effect_free(st.msg)):
                counts['assert'] += 1
                continue
            out.append(st)
        return out
    for mname, tree in trees.items():
        b = base.get(mname) or {'funcs': {}, 'classes': {}}
        for n in tree.body:
            fns = []
            if isinstance(n, (ast.FunctionDef, ast.AsyncFunctionDef)):
                fns = [(n, None)]
            elif isinstance(n, ast.ClassDef):
                fns = [(m, n.name) for m in n.body if isinstance(m, (ast.FunctionDef, ast.AsyncFunctionDef))]
            for fn, cname in fns:
                # logging calls that the reference tree already has in this function stay (rules may mention them)
                known = set(base.get('__logcalls__', {}).get(f'{mname}:{cname}.{fn.name}' if cname else f'{mname}:{fn.name}', []))
                fn.body = block(fn.body, known) or [ast.copy_location(ast.Pass(), fn)]
                env = dict(returns)
                for a in fn.args.posonlyargs + fn.args.args + fn.args.kwonlyargs:
                    if a.annotation is not None and _txt(a.annotation) in ('bool', 'int', 'float') and not any(
                            isinstance(x, ast.Name) and x.id == a.arg and isinstance(x.ctx, ast.Store) for x in _walk_shallow(fn)):
                        env[('param', a.arg)] = _txt(a.annotation)
                if cname:
                    for (fname, ftype) in field_types.get(cname, {}).items():
                        env[('field', fname)] = ftype
                Conv(env).visit(fn)
    if any(counts.values()):
        log.append(f'N6 no-ops removed: {counts["log"]} logging call(s), {counts["assert"]} assert(s), {counts["conv"]} redundant bool/int/float conversion(s)')


# =================================================================================================== driver
def run(trees, baseline=None):
    """trees: module name -> ast.Module (modified in place); returns the log of rewrites"""
    base = baseline if baseline is not None else load_baseline()
    log = []
    undo_renames(trees, base, log)
    materialise_inherited_methods(trees, base, log)
    strip_lock_blocks(trees, base, log)
    match_to_if(trees, log)
    refinement_chains(trees, log)
    named_tuple_records(trees, base, log)
    unfold_functional_idioms(trees, log)
    instantiate_method_factories(trees, base, log)
    property_objects_to_methods(trees, log)
    expand_seeded_generators(trees, log)
    inline_bound_method_fields(trees, base, log)
    OBSERVERS.clear()
    OBSERVERS.update(observer_methods(trees))
    strip_noops(trees, base, log)
    defaults_into_init(trees, base, log)
    from .consteval import fold_table_helpers
    fold_table_helpers(trees, base, log)
    fold_int_enums(trees, base, log)
    expand_constant_sets(trees, base, log)
    fold_constants(trees, base, log)
    NON_NONE_CLASS_CONSTANTS.clear()
    for t in trees.values():
        for c in t.body:
            if isinstance(c, ast.ClassDef):
                seen = {}
                for st in c.body:
                    if isinstance(st, ast.Assign) and len(st.targets) == 1 and isinstance(st.targets[0], ast.Name):
                        seen.setdefault(st.targets[0].id, []).append(st.value)
                for k, vs in seen.items():
                    if len(vs) == 1 and isinstance(vs[0], ast.Constant) and vs[0].value is not None:
                        NON_NONE_CLASS_CONSTANTS.add(f'{c.name}.{k}')
    drop_sound_stamp_guards(trees, base, log)
    refold_exact_type_fast_paths(trees, base, log)
    inline_generators(trees, base, log)
    unfold_walrus(trees, log)
    unroll_table_loops(trees, base, log)
    inline_yield_sequences(trees, base, log)
    inline_helpers(trees, base, log)
    unroll_vararg_loops(trees, log)
    for t in trees.values():                      # getattr(x, 'literal') / f(*(literal tuple)) / (lambda ..)(..) exposed by constant arguments of inlined helpers
        if any(isinstance(x, ast.Call) and ((isinstance(x.func, ast.Name) and x.func.id == 'getattr') or isinstance(x.func, ast.Lambda)
                                           or any(isinstance(a, ast.Starred) for a in x.args)) for x in ast.walk(t)):
            _BetaReduce().visit(t)
    fold_self_class_constants(trees, base, log)
    inline_derived_fields(trees, base, log)
    strip_pure_memos(trees, base, log)
    propagate_locals(trees, base, log)
    strip_noops(trees, base, log)                 # conversions exposed by the propagation
    flatten_records(trees, base, log)
    undo_renames(trees, base, log)                # renames whose usage profile only matches once the new helpers are gone
    for t in trees.values():
        ast.fix_missing_locations(t)
    return log
