"""E5 -- finite-domain, three-valued evaluation of guard expressions.

A guard is evaluated under an *abstract environment*:

    'self._run_state'            -> 'STARTED'          enum member name (or a number / bool)
    ('ord', 'A', 'B')            -> 'lt'|'eq'|'gt'|'un' ordering atom between two canonical expression texts
    ('bool', 'text')             -> True | False       opaque boolean atom
    ('isnone', 'text')           -> True | False       whether the expression is None
    ('same', 'A', 'B')           -> True | False       whether the two expressions denote the same object (decides `A is B`)

Expression texts are canonical: zero-argument helper predicates and properties
whose body is a single `return <expr>` are inlined through the class table, so
`self.is_starting_or_running()`, `self.run_state == RunState.STARTING or ...`
and a hand-inlined variant all evaluate alike.
Result: True / False / None (undetermined under this environment).
"""
from __future__ import annotations

import ast
import copy

from .core import Program, is_self_attr, unparse, NOCONST, const_value

ORD = {'lt': -1, 'eq': 0, 'gt': 1}


def _query_call(x):
    """calls that only read: accessor chains such as self.eventlist().peek_first()"""
    return isinstance(x, ast.Call) and isinstance(x.func, ast.Attribute) and not x.keywords and \
        x.func.attr in ('eventlist', 'peek_first', 'is_empty', 'size', 'simulator_time', 'time')


class Canon(ast.NodeTransformer):
    """inline simple properties / zero-arg helper predicates on self"""

    def __init__(self, prog: Program, cls: str, depth=4, subst=None, receivers=('self',)):
        self.prog = prog
        self.cls = cls
        self.depth = depth
        self.subst = subst or {}
        self.receivers = tuple(receivers)     # names known to be instances of cls

    def _recv(self, node):
        if isinstance(node, ast.Attribute) and isinstance(node.value, ast.Name) and node.value.id in self.receivers:
            return node.value.id
        return None

    def _inline(self, expr, recv):
        e = copy.deepcopy(expr)
        if recv != 'self':
            for n in ast.walk(e):
                if isinstance(n, ast.Name) and n.id == 'self':
                    n.id = recv
        return Canon(self.prog, self.cls, self.depth - 1, receivers=self.receivers).visit(e)

    def visit_Name(self, node):
        if node.id in self.subst:
            v = copy.deepcopy(self.subst[node.id])
            if self.depth > 0:
                # the substituted value is canonicalised as well (it may itself use accessors / other single-assignment locals)
                rest = {k: x for k, x in self.subst.items() if k != node.id}
                return Canon(self.prog, self.cls, self.depth - 1, subst=rest, receivers=self.receivers).visit(v)
            return v
        return node

    def _ctor_field(self, node):
        """Cls(a, b, ...).prop  ->  the constructor argument stored in the field that prop returns"""
        call = node.value
        if not (isinstance(call, ast.Call) and isinstance(call.func, ast.Name) and call.func.id in self.prog.classes):
            return None
        cname = call.func.id
        if not self.prog.is_prop(cname, node.attr):
            return None
        r = self.prog.simple_return(cname, node.attr)
        if r is None or not is_self_attr(r):
            return None
        ci, init = self.prog.resolve(cname, '__init__')
        if init is None:
            return None
        stores = [n for n in ast.walk(init) if isinstance(n, (ast.Assign, ast.AnnAssign))
                  and any(is_self_attr(t, r.attr) for t in (n.targets if isinstance(n, ast.Assign) else [n.target]))]
        if len(stores) != 1 or not isinstance(stores[0].value, ast.Name):
            return None
        params = [a.arg for a in init.args.args][1:]
        pname = stores[0].value.id
        if pname not in params:
            return None
        i = params.index(pname)
        if i < len(call.args) and not any(isinstance(a, ast.Starred) for a in call.args[:i + 1]):
            return copy.deepcopy(call.args[i])
        for kw in call.keywords:
            if kw.arg == pname:
                return copy.deepcopy(kw.value)
        return None

    def visit_Attribute(self, node):
        node = self.generic_visit(node)
        cf = self._ctor_field(node)
        if cf is not None:
            return cf
        recv = self._recv(node)
        if self.cls and recv and self.depth > 0 and self.prog.is_prop(self.cls, node.attr):
            r = self.prog.simple_return(self.cls, node.attr)
            if r is not None:
                return self._inline(r, recv)
        return node

    def visit_Call(self, node):
        node = self.generic_visit(node)
        f = node.func
        recv = self._recv(f) if isinstance(f, ast.Attribute) else None
        if self.cls and recv and not node.args and not node.keywords \
                and self.depth > 0 and not self.prog.is_prop(self.cls, f.attr):
            r = self.prog.simple_return(self.cls, f.attr)
            if r is None:
                r = self.prog.predicate_expr(self.cls, f.attr)      # `if A: return True; return B` is the predicate `A or B`
            if r is not None:
                return self._inline(r, recv)
        if self.cls and recv and node.args and not node.keywords and self.depth > 0 and not self.prog.is_prop(self.cls, f.attr):
            # a predicate with parameters: `self.p(a, b)` is p's returned expression with the (side-effect free) arguments in place of the parameters
            ci, fn = self.prog.resolve(self.cls, f.attr)
            if fn is not None and not fn.args.vararg and not fn.args.kwarg and not fn.args.kwonlyargs and len(fn.args.args) == len(node.args) + 1 \
                    and not any(isinstance(a, ast.Starred) for a in node.args) \
                    and not any(isinstance(x, (ast.Call, ast.NamedExpr, ast.Await, ast.Yield, ast.Lambda)) and not _query_call(x) for a in node.args for x in ast.walk(a)):
                r = self.prog.simple_return(self.cls, f.attr) or self.prog.predicate_expr(self.cls, f.attr)
                params = [a.arg for a in fn.args.args[1:]]
                stored = {x.id for x in ast.walk(fn) if isinstance(x, ast.Name) and isinstance(x.ctx, ast.Store)}
                if r is not None and not (stored & set(params)):
                    m = dict(zip(params, node.args))
                    e = copy.deepcopy(r)

                    class S(ast.NodeTransformer):
                        def visit_Name(self, n):
                            return copy.deepcopy(m[n.id]) if n.id in m and isinstance(n.ctx, ast.Load) else n

                        def visit_Lambda(self, n):
                            return n
                    e = S().visit(e)
                    return self._inline(e, recv)
        return node


def canon(prog, cls, node, subst=None, receivers=('self',)):
    return Canon(prog, cls, subst=subst, receivers=receivers).visit(copy.deepcopy(node))


def ctext(prog, cls, node, subst=None, receivers=('self',)) -> str:
    return unparse(canon(prog, cls, node, subst, receivers))


class GuardEval:
    def __init__(self, prog: Program, cls: str, env: dict, enums=None, subst=None, receivers=('self',)):
        self.prog = prog
        self.cls = cls
        self.env = env
        self.enums = enums or {}         # enum class name -> {member: literal}
        self.subst = subst
        self.receivers = receivers
        self.unknown = []

    # ---- values
    def value(self, node):
        """('enum', cls, member) | ('num', v) | ('none',) | ('val', v) | ('sym', text)"""
        if isinstance(node, ast.Attribute) and isinstance(node.value, ast.Name) and node.value.id in self.enums \
                and node.attr in self.enums[node.value.id]:
            return ('enum', node.value.id, node.attr)
        if isinstance(node, ast.Constant):
            if node.value is None:
                return ('none',)
            if isinstance(node.value, bool):
                return ('val', node.value)
            if isinstance(node.value, (int, float)):
                return ('num', node.value)
            return ('val', node.value)
        if isinstance(node, ast.UnaryOp) and isinstance(node.op, ast.USub):
            v = self.value(node.operand)
            if v[0] == 'num':
                return ('num', -v[1])
        t = unparse(node)
        if t in self.env:
            v = self.env[t]
            if v is None:
                return ('none',)
            return ('val', v)
        return ('sym', t)

    def _member(self, v):
        if v[0] == 'enum':
            return v[2]
        if v[0] == 'val' and isinstance(v[1], str):
            return v[1]
        return None

    def _num(self, v):
        if v[0] == 'num':
            return v[1]
        if v[0] == 'enum':
            lit = self.enums.get(v[1], {}).get(v[2])
            if isinstance(lit, (int, float)) and not isinstance(lit, bool):
                return lit
        if v[0] == 'val' and isinstance(v[1], (int, float)) and not isinstance(v[1], bool):
            return v[1]
        return None

    # ---- truth
    def ev(self, node):
        node = canon(self.prog, self.cls, node, self.subst, self.receivers)
        return self._ev(node)

    def _ev(self, node):
        if isinstance(node, ast.BoolOp):
            vals = [self._ev(v) for v in node.values]
            if isinstance(node.op, ast.And):
                if any(v is False for v in vals):
                    return False
                return True if all(v is True for v in vals) else None
            if any(v is True for v in vals):
                return True
            return False if all(v is False for v in vals) else None
        if isinstance(node, ast.UnaryOp) and isinstance(node.op, ast.Not):
            v = self._ev(node.operand)
            return None if v is None else (not v)
        if isinstance(node, ast.Compare):
            res = True
            left = node.left
            for op, right in zip(node.ops, node.comparators):
                r = self._cmp(left, op, right)
                if r is False:
                    return False
                if r is None:
                    res = None
                left = right
            return res
        if isinstance(node, ast.Constant):
            return bool(node.value)
        if isinstance(node, ast.IfExp):
            t = self._ev(node.test)
            if t is None:
                a, b = self._ev(node.body), self._ev(node.orelse)
                return a if a is b else None
            return self._ev(node.body if t else node.orelse)
        key = ('bool', unparse(node))
        if key in self.env:
            return self.env[key]
        v = self.value(node)
        if v[0] == 'val' and isinstance(v[1], bool):
            return v[1]
        if v[0] == 'none':
            return False
        self.unknown.append(key[1])
        return None

    def _cmp(self, a, op, b):
        va, vb = self.value(a), self.value(b)
        if isinstance(op, (ast.In, ast.NotIn)):
            key = ('bool', f'{unparse(a)} in {unparse(b)}')
            if key in self.env:
                r = self.env[key]
                return r if isinstance(op, ast.In) else (not r)
            self.unknown.append(key[1])
            return None
        ma, mb = self._member(va), self._member(vb)
        if ma is not None and mb is not None and isinstance(op, (ast.Eq, ast.NotEq, ast.Is, ast.IsNot)):
            eq = ma == mb
            return eq if isinstance(op, (ast.Eq, ast.Is)) else (not eq)
        na, nb = self._num(va), self._num(vb)
        if na is not None and nb is not None:
            table = {ast.Lt: na < nb, ast.LtE: na <= nb, ast.Gt: na > nb, ast.GtE: na >= nb,
                     ast.Eq: na == nb, ast.NotEq: na != nb, ast.Is: na == nb, ast.IsNot: na != nb}
            return table.get(type(op))
        if va[0] == 'none' or vb[0] == 'none':
            if va[0] == 'none' and vb[0] == 'none':
                isn = True
            else:
                other, onode = (vb, b) if va[0] == 'none' else (va, a)
                if other[0] in ('val', 'num', 'enum'):
                    isn = False
                else:
                    key = ('isnone', unparse(onode))
                    if key not in self.env:
                        self.unknown.append(str(key))
                        return None
                    isn = self.env[key]
            if isinstance(op, (ast.Eq, ast.Is)):
                return isn
            if isinstance(op, (ast.NotEq, ast.IsNot)):
                return not isn
            return None
        ta, tb = unparse(a), unparse(b)
        if isinstance(op, (ast.Is, ast.IsNot)) and (('same', ta, tb) in self.env or ('same', tb, ta) in self.env):
            same = self.env.get(('same', ta, tb), self.env.get(('same', tb, ta)))      # declared: the two expressions denote one object / two objects
            return same if isinstance(op, ast.Is) else (not same)
        if ta == tb and ('ord', ta, tb) not in self.env:
            # x ? x : reflexive unless the atom may be NaN (declared via ('nan', text))
            if self.env.get(('nan', ta)):
                return isinstance(op, ast.NotEq)
            return {ast.Lt: False, ast.LtE: True, ast.Gt: False, ast.GtE: True, ast.Eq: True, ast.NotEq: False}.get(type(op))
        for (x, y, flip) in ((ta, tb, False), (tb, ta, True)):
            key = ('ord', x, y)
            if key in self.env:
                rel = self.env[key]
                if rel == 'un':
                    return isinstance(op, (ast.NotEq, ast.IsNot))
                c = ORD[rel] * (-1 if flip else 1)
                return {ast.Lt: c < 0, ast.LtE: c <= 0, ast.Gt: c > 0, ast.GtE: c >= 0,
                        ast.Eq: c == 0, ast.NotEq: c != 0}.get(type(op))
        self.unknown.append(f'{ta} ? {tb}')
        return None


def load_enums(prog: Program, names):
    return {n: prog.enum_members(n) for n in names}


# ----------------------------------------------------------------- decision lists
AMBIG = 'AMBIG'
NORETURN = 'NORETURN'
RAISE = 'RAISE'


def eval_decision_list(stmts, ge: GuardEval, on_return=None, skip_other=True):
    """Outcome of a body made of if / return / raise (other simple statements skipped) under the environment
    of `ge`: a constant, RAISE, ('expr', node) for a non-constant return, AMBIG when a test is undetermined,
    NORETURN when the body falls through."""
    for s in stmts:
        if isinstance(s, ast.If):
            v = ge.ev(s.test)
            if v is None:
                return AMBIG
            r = eval_decision_list(s.body if v else s.orelse, ge, on_return, skip_other)
            if r != NORETURN:
                return r
        elif isinstance(s, ast.Raise):
            return RAISE
        elif isinstance(s, ast.Return):
            if s.value is None:
                return None
            if on_return is not None:
                return on_return(s.value)
            v = s.value
            if isinstance(v, ast.IfExp):
                t = ge.ev(v.test)
                if t is None:
                    return AMBIG
                v = v.body if t else v.orelse
            c = const_value(v)
            if c is NOCONST:
                if isinstance(v, (ast.Compare, ast.BoolOp)) or (isinstance(v, ast.UnaryOp) and isinstance(v.op, ast.Not)):
                    b = ge.ev(v)
                    return ('expr', v) if b is None else b
                return ('expr', v)
            return c
        elif isinstance(s, (ast.Pass, ast.Expr, ast.Assign, ast.AnnAssign, ast.AugAssign)) and skip_other:
            continue
        else:
            return AMBIG
    return NORETURN
